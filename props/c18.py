"""C18 - BIP158 compact filters, BIP37 bloom filters, SipHash-2-4, MurmurHash3.

Monitors (contracts on the real functions, see vmon.contracts):
  siphash.SipHash_2_4 (init/update/copy tracked, hash compared), compactfilter._siphash, helper._siphash
  helper.murmur3                                     == reference MurmurHash3 x86_32 (seed reduced mod 2^32)
  compactfilter.hash_to_range / encode_golomb / decode_golomb / pack_bits / unpack_bits / encode_gcs / decode_gcs
  CompactFilter.parse / serialize / __contains__ / hash, CFilterMessage.hash, CFHeadersMessage.__init__
  BloomFilter.add / filter_bytes / filterload        bit positions, packing and filterload layout per BIP37
Workloads: every message length 0..70 (all tail lengths) x key / seed catalogue; Golomb boundary values; element
sets of 0..2000 scripts; membership of every inserted element through CompactFilter and CFilterMessage; BIP158
vectors; element sets with two elements of equal range value (committed witnesses in corpus/c18_collisions.json and
fresh searches); filter-header chains; bloom sizes x function counts x tweaks, membership the way a peer tests it.
"""
import json
import os
import struct
from io import BytesIO

from ref import filters as fl
from vmon import contracts
from vmon.core import VERIF_ROOT, outcome

PROPERTY_ID = "C18"
REPO_TEST_MODULES = ["test_compactfilter", "test_bloomfilter", "test_siphash", "test_network"]  # thorough tier: extra workload under the contracts
RULE = (
    "cases = (key, message) pairs through SipHash, (seed, message) pairs through murmur3, Golomb inputs, (key, element "
    "set) pairs through encode_gcs / decode_gcs / CompactFilter.parse / membership of every inserted element, filter-hash "
    "lists through CFHeadersMessage, (size, function count, tweak, items) through BloomFilter; each is decided by a contract "
    "on the real function comparing with ref/filters.py (no-false-negative cases additionally by the driver, which knows the "
    "inserted set); distinct = distinct concrete inputs by hash; non-trivial = the contract reached the comparison (for "
    "membership: the queried element was inserted, or the reference verdict for a non-member was computed)"
)
ASSUMPTIONS = [
    "elements of one filter are distinct byte strings (BIP158 builds the filter from a set)",
    "the csiphash C extension is absent in this sandbox; the pure-Python SipHash is what runs",
    "murmur3 seeds are compared modulo 2^32 (BloomFilter passes i*0xFBA4C795+tweak unreduced)",
    "bloom membership is evaluated the way a peer does it (reference test over filter_bytes()), the class has no query method",
]
DUP_MECH = "compactfilter:two-elements-with-equal-range-value"

GATES = {
    "hash-monitors-ran": ["SipHash_2_4.hash", "compactfilter._siphash", "murmur3", "hash_to_range"],
    "golomb-monitors-ran": ["encode_golomb", "decode_golomb", "pack_bits", "unpack_bits"],
    "gcs-monitors-ran": ["encode_gcs", "decode_gcs", "CompactFilter.parse", "CompactFilter.serialize", "CompactFilter.__contains__", "CompactFilter.hash"],
    "header-monitor-ran": ["CFHeadersMessage.__init__", "CFilterMessage.hash"],
    "bloom-monitors-ran": ["BloomFilter.add", "BloomFilter.filter_bytes", "BloomFilter.filterload"],
    "sip-tail-lengths": ["sip:len%8=" + str(k) for k in range(8)] + ["sip:len>=64", "sip:split-updates"],
    "murmur-tail-lengths": ["murmur:len%4=" + str(k) for k in range(4)] + ["murmur:seed>=2^32", "murmur:high-bytes"],
    "golomb-classes": ["golomb:q=0", "golomb:q>=1", "golomb:x=2^19-1", "golomb:x=2^19", "golomb:x=2^26-1"],
    "gcs-sizes": ["gcs:N=0", "gcs:N=1", "gcs:N=252", "gcs:N=253", "gcs:N>=1000"],
    "membership": ["member:inserted-present", "member:non-member-agrees-with-reference", "member:via-cfilter-message"],
    "collisions": ["collision:corpus-witness", "collision:fresh-witness", "gcs:delta-zero"],
    "spec-vectors": ["vector:bip158"],
    "repeated-elements": ["gcs:element-list-with-repeats"],
    "header-chain": ["cfheaders:k=0", "cfheaders:k=1", "cfheaders:k>=2"],
    "bloom-classes": ["bloom:size=1", "bloom:size=36000", "bloom:nfuncs=1", "bloom:nfuncs=50", "bloom:tweak=0xffffffff", "bloom:member-present", "bloom:empty-item"],
}

_state = {"inserted": None, "via": None}

MAX_PER_MECHANISM = 6
_mech_seen = {}


def _viol(ctx, mechanism, what, case):
    """Keep the first few violations of each mechanism per shard (the harness keeps 200 per shard in total;
    thousands of repeats of one mechanism must not crowd out a different one); repeats are counted."""
    k = _mech_seen.get(mechanism, 0) + 1
    _mech_seen[mechanism] = k
    if k <= MAX_PER_MECHANISM:
        ctx.violation(mechanism, what, case)
    else:
        ctx.count("violation-repeats:" + mechanism)



def anchors():
    from buidl import bloomfilter, compactfilter, helper, siphash

    return [
        siphash._doublesipround, siphash.SipHash_2_4.update, siphash.SipHash_2_4.hash, helper.murmur3, compactfilter.hash_to_range,
        compactfilter.encode_golomb, compactfilter.decode_golomb, compactfilter.pack_bits, compactfilter.unpack_bits,
        compactfilter.serialize_gcs, compactfilter.decode_gcs, compactfilter.CompactFilter.__init__, compactfilter.CompactFilter.__contains__,
        compactfilter.CFHeadersMessage.__init__, bloomfilter.BloomFilter.add, bloomfilter.BloomFilter.filterload,
    ]


class RawScript:
    """Stand-in for a script object: CompactFilter.__contains__ only calls raw_serialize()."""

    def __init__(self, raw):
        self.raw = raw

    def raw_serialize(self):
        return self.raw


def _b(x):
    return isinstance(x, (bytes, bytearray))


def _ins():
    """The inserted element set for a violation record (omitted when it is large; the filter bytes are recorded anyway)."""
    ins = _state["inserted"]
    if ins is None or sum(len(e) + 1 for e in ins) > 65536:
        return None
    return ins


# ---- contracts: hashes ------------------------------------------------------------------------
def post_sip_init(args, kwargs, pre, out):
    if out[0] == "ok":
        self = args[0]
        secret = args[1] if len(args) > 1 else kwargs.get("secret")
        self._vm_key = bytes(secret) if _b(secret) else None
    return NotImplemented


def post_sip_update(args, kwargs, pre, out):
    if out[0] == "ok":
        self = args[0]
        s = args[1] if len(args) > 1 else kwargs.get("s", b"")
        prev = getattr(self, "_vm_msg", b"")
        if prev is not None and _b(s):
            if prev and s:
                contracts.ctx().count("sip:split-updates")
            self._vm_msg = prev + bytes(s)
        else:
            self._vm_msg = None
    return NotImplemented


def post_sip_copy(args, kwargs, pre, out):
    if out[0] == "ok":
        out[1]._vm_key = getattr(args[0], "_vm_key", None)
        out[1]._vm_msg = getattr(args[0], "_vm_msg", None)
    return NotImplemented


def _sip_classes(ctx, msg):
    ctx.count("sip:len%8=" + str(len(msg) % 8))
    if len(msg) >= 64:
        ctx.count("sip:len>=64")


def post_sip_hash(args, kwargs, pre, out):
    ctx = contracts.ctx()
    self = args[0]
    key, msg = getattr(self, "_vm_key", None), getattr(self, "_vm_msg", None)
    if key is None or msg is None or len(key) != 16:
        ctx.count("observed:siphash-object-with-unknown-history")
        return NotImplemented
    case = {"op": "sip-object", "key": key, "msg": msg}
    exp = fl.siphash24(key, msg)
    if out[0] == "exc":
        _viol(ctx, "siphash-raises", f"hash() raised {out[1]!r}", case)
    elif out[1] != exp:
        _viol(ctx, "siphash-differs", f"len={len(msg)} got {out[1]:#x} expected {exp:#x}", case)
    _sip_classes(ctx, msg)
    ctx.case(("sip", key, msg))


def post_siphash_fn(args, kwargs, pre, out):
    ctx = contracts.ctx()
    key, msg = args[0], args[1]
    if not (_b(key) and _b(msg)) or len(key) != 16:
        return NotImplemented
    case = {"op": "sip", "key": bytes(key), "msg": bytes(msg)}
    exp = fl.siphash24(bytes(key), bytes(msg))
    if out[0] == "exc":
        _viol(ctx, "siphash-raises", f"_siphash raised {out[1]!r}", case)
    elif out[1] != exp:
        _viol(ctx, "siphash-differs", f"len={len(msg)} got {out[1]:#x} expected {exp:#x}", case)
    ctx.case(("sip", bytes(key), bytes(msg)))


def post_murmur3(args, kwargs, pre, out):
    ctx = contracts.ctx()
    data = args[0]
    seed = args[1] if len(args) > 1 else kwargs.get("seed", 0)
    if not _b(data) or type(seed) is not int or seed < 0:
        return NotImplemented
    data = bytes(data)
    case = {"op": "murmur", "data": data, "seed": seed}
    exp = fl.murmur3(data, seed & 0xFFFFFFFF)
    ctx.count("murmur:len%4=" + str(len(data) % 4))
    if seed >= 2**32:
        ctx.count("murmur:seed>=2^32")
    if any(b >= 0x80 for b in data):
        ctx.count("murmur:high-bytes")
    if out[0] == "exc":
        _viol(ctx, "murmur3-raises", f"raised {out[1]!r}", case)
    elif out[1] != exp:
        _viol(ctx, "murmur3-differs:tail-length-%d" % (len(data) % 4), f"len={len(data)} seed={seed:#x} got {out[1]:#x} expected {exp:#x}", case)
    ctx.case(("murmur", data, seed))


def post_hash_to_range(args, kwargs, pre, out):
    ctx = contracts.ctx()
    key, value, f = args[0], args[1], args[2]
    if not (_b(key) and _b(value)) or len(key) != 16 or type(f) is not int or f < 0:
        return NotImplemented
    exp = fl.hash_to_range(bytes(key), bytes(value), f)
    case = {"op": "range", "key": bytes(key), "value": bytes(value), "f": f}
    if out[0] == "exc":
        _viol(ctx, "hash-to-range-raises", f"raised {out[1]!r}", case)
    elif out[1] != exp:
        _viol(ctx, "hash-to-range-differs", f"f={f} got {out[1]} expected {exp}", case)
    _sip_classes(ctx, bytes(value))
    ctx.case(("range", bytes(key), bytes(value), f))


# ---- contracts: Golomb-Rice and bit packing ---------------------------------------------------------
def _golomb_classes(ctx, x, p):
    if p == fl.GCS_P:
        ctx.count("golomb:q=0" if x >> p == 0 else "golomb:q>=1")
        for name, v in (("2^19-1", 2**19 - 1), ("2^19", 2**19), ("2^26-1", 2**26 - 1)):
            if x == v:
                ctx.count("golomb:x=" + name)


def post_encode_golomb(args, kwargs, pre, out):
    ctx = contracts.ctx()
    x, p = args[0], args[1]
    if type(x) is not int or type(p) is not int or x < 0 or p < 0 or (x >> p) > 100000:
        return NotImplemented
    case = {"op": "golomb", "x": x, "p": p}
    exp = fl.golomb_bits(x, p)
    _golomb_classes(ctx, x, p)
    if out[0] == "exc":
        _viol(ctx, "encode-golomb-raises", f"raised {out[1]!r}", case)
    elif [1 if b else 0 for b in out[1]] != exp:
        _viol(ctx, "encode-golomb-differs", f"x={x} p={p}: bit string differs from quotient-unary || {p}-bit remainder", case)
    ctx.case(("golomb", x, p))


SNAP_BITS = 2048


def snap_decode_golomb(bits, p):
    return (len(bits), [1 if b else 0 for b in bits[:SNAP_BITS]])


def post_decode_golomb(args, kwargs, pre, out):
    ctx = contracts.ctx()
    p = args[1]
    n0, head = pre
    if type(p) is not int:
        return NotImplemented
    # reference decode of the snapshot
    q = 0
    while q < len(head) and head[q] == 1:
        q += 1
    if q + 1 + p > len(head):
        if n0 > len(head):
            ctx.count("observed:decode-golomb-code-longer-than-snapshot")
            return NotImplemented
        # the bit string ends inside the code: not a Golomb code, the library may do anything
        ctx.count("observed:decode-golomb-truncated-input")
        return NotImplemented
    r = 0
    for b in head[q + 1 : q + 1 + p]:
        r = (r << 1) | b
    exp = (q << p) + r
    used = q + 1 + p
    case = {"op": "golomb", "x": exp, "p": p}
    if out[0] == "exc":
        _viol(ctx, "decode-golomb-raises", f"raised {out[1]!r} on the code of {exp}", case)
    else:
        if out[1] != exp:
            _viol(ctx, "decode-golomb-differs", f"p={p}: got {out[1]} expected {exp}", case)
        if len(args[0]) != n0 - used:
            _viol(ctx, "decode-golomb-consumes-wrong-number-of-bits", f"consumed {n0 - len(args[0])} bits, the code has {used}", case)
    _golomb_classes(ctx, exp, p)
    ctx.case(("ungolomb", exp, p))


def post_pack_bits(args, kwargs, pre, out):
    ctx = contracts.ctx()
    exp = fl.pack_bits(pre)
    case = {"op": "pack", "bits": bytes(pre[:4096])}
    if out[0] == "exc":
        _viol(ctx, "pack-bits-raises", f"raised {out[1]!r}", case)
    elif out[1] != exp:
        _viol(ctx, "pack-bits-differs", f"{len(pre)} bits: got {bytes(out[1])[:16].hex()}.. expected {exp[:16].hex()}..", case)
    ctx.case(("pack", exp, len(pre)))


def post_unpack_bits(args, kwargs, pre, out):
    ctx = contracts.ctx()
    raw = args[0]
    if not _b(raw):
        return NotImplemented
    exp = fl.unpack_bits(bytes(raw))
    case = {"op": "unpack", "raw": bytes(raw)[:4096]}
    if out[0] == "exc":
        _viol(ctx, "unpack-bits-raises", f"raised {out[1]!r}", case)
    elif [1 if b else 0 for b in out[1]] != exp:
        _viol(ctx, "unpack-bits-differs", f"{len(raw)} bytes", case)
    ctx.case(("unpack", bytes(raw)))


# ---- contracts: filters ----------------------------------------------------------------------------
def _distinct_bytes(items):
    return isinstance(items, (list, tuple)) and all(_b(i) for i in items) and len(set(bytes(i) for i in items)) == len(items)


def _size_classes(ctx, n):
    for v in (0, 1, 252, 253):
        if n == v:
            ctx.count("gcs:N=%d" % v)
    if n >= 1000:
        ctx.count("gcs:N>=1000")


def _els_case(key, items):
    return {"op": "gcs", "key": bytes(key), "elements": [bytes(i) for i in items]}


def post_encode_gcs(args, kwargs, pre, out):
    ctx = contracts.ctx()
    key, items = args[0], pre
    if not _b(key) or len(key) != 16 or not (isinstance(items, (list, tuple)) and all(_b(i) for i in items)):
        return NotImplemented
    case = _els_case(key, items)
    if not _distinct_bytes(items):
        # BIP158 builds the filter from the SET of elements (its vector "Duplicate pushdata"): a script that occurs twice
        # in a block counts once in N, hence in F = N*M and in every range value
        ctx.count("gcs:element-list-with-repeats")
        items = sorted(set(bytes(i) for i in items))
    exp = fl.gcs_encode(bytes(key), [bytes(i) for i in items])
    _size_classes(ctx, len(items))
    vals = fl.hashed_set(bytes(key), [bytes(i) for i in items])
    dup = len(set(vals)) < len(vals)
    if dup:
        ctx.count("gcs:delta-zero")
    if out[0] == "exc":
        _viol(ctx, "encode-gcs-raises", f"N={len(items)} raised {out[1]!r}", case)
    elif out[1] != exp:
        _viol(ctx, "encode-gcs-differs" + (":equal-range-values" if dup else ""), f"N={len(items)} got {bytes(out[1])[:24].hex()}.. expected {exp[:24].hex()}..", case)
    ctx.case(("gcs", bytes(key), fl.hash256(b"".join(fl.compact_size(len(i)) + bytes(i) for i in items))), nontrivial=len(items) > 0)


def _ref_decode(raw):
    try:
        n, values, used = fl.gcs_decode(bytes(raw))
    except ValueError:
        return None
    return n, values, used


def post_decode_gcs(args, kwargs, pre, out):
    ctx = contracts.ctx()
    raw = args[1]
    if not _b(raw):
        return NotImplemented
    d = _ref_decode(raw)
    if d is None:
        ctx.count("observed:decode-gcs-truncated-filter")
        return NotImplemented
    n, values, _ = d
    case = {"op": "filter", "key": bytes(args[0]) if _b(args[0]) else None, "filter": bytes(raw)}
    if out[0] == "exc":
        _viol(ctx, "decode-gcs-raises", f"N={n} raised {out[1]!r}", case)
    elif list(out[1]) != values:
        _viol(ctx, "decode-gcs-differs", f"N={n}: decoded values differ from the reference", case)
    ctx.case(("ungcs", bytes(raw)), nontrivial=n > 0)


def post_cf_parse(args, kwargs, pre, out):
    ctx = contracts.ctx()
    key, raw = args[-2], args[-1]
    if not (_b(key) and _b(raw)) or len(key) != 16:
        return NotImplemented
    d = _ref_decode(raw)
    if d is None:
        return NotImplemented
    n, values, _ = d
    case = {"op": "filter", "key": bytes(key), "filter": bytes(raw), "elements": _ins()}
    canonical = fl.gcs_from_values(values) == bytes(raw)
    dup = len(set(values)) < len(values)
    if out[0] == "exc":
        _viol(ctx, "compactfilter-parse-raises", f"N={n} raised {out[1]!r}", case)
        return
    cf = out[1]
    cf._vm_src = bytes(raw) if canonical else None
    cf._vm_n = n
    cf._vm_values = values
    if getattr(cf, "f", None) != n * fl.GCS_M:
        _viol(ctx, 
            DUP_MECH if dup else "compactfilter-parse:wrong-F",
            f"parsed filter declares N={n} (F=N*M={n * fl.GCS_M}) but the object hashes queries into F={getattr(cf, 'f', None)}"
            + (" (two elements share a range value; the duplicate was dropped)" if dup else ""),
            case,
        )
    if set(cf.hashes) != set(values):
        _viol(ctx, "compactfilter-parse:values-differ", f"N={n}: stored values differ from the decoded set", case)
    ctx.case(("cf-parse", bytes(key), bytes(raw)), nontrivial=n > 0)


def post_cf_serialize(args, kwargs, pre, out):
    ctx = contracts.ctx()
    cf = args[0]
    src = getattr(cf, "_vm_src", None)
    if src is not None:
        exp, how = src, "the bytes it was parsed from"
        dup = len(set(cf._vm_values)) < len(cf._vm_values)
    else:
        hs = getattr(cf, "hashes", None)
        if not isinstance(hs, (set, frozenset, list)) or not all(type(h) is int and h >= 0 for h in hs):
            return NotImplemented
        exp, how, dup = fl.gcs_from_values(sorted(hs)), "the reference encoding of its value set", False
    case = {"op": "filter", "key": bytes(cf.key) if _b(cf.key) else None, "filter": exp, "elements": _ins()}
    if out[0] == "exc":
        _viol(ctx, "compactfilter-serialize-raises", f"raised {out[1]!r}", case)
    elif out[1] != exp:
        _viol(ctx, DUP_MECH if dup else "compactfilter-serialize-differs", f"serialize() = {bytes(out[1])[:24].hex()}.. is not {how} ({exp[:24].hex()}..)", case)
    ctx.case(("cf-serialize", exp))


def post_cf_hash(args, kwargs, pre, out):
    ctx = contracts.ctx()
    cf = args[0]
    src = getattr(cf, "_vm_src", None)
    if src is None:
        hs = getattr(cf, "hashes", None)
        if not isinstance(hs, (set, frozenset, list)) or not all(type(h) is int and h >= 0 for h in hs):
            return NotImplemented
        src = fl.gcs_from_values(sorted(hs))
        dup = False
    else:
        dup = len(set(cf._vm_values)) < len(cf._vm_values)
    exp = fl.filter_hash(src)
    case = {"op": "filter", "key": bytes(cf.key) if _b(cf.key) else None, "filter": src, "elements": _ins()}
    if out[0] == "exc":
        _viol(ctx, "compactfilter-hash-raises", f"raised {out[1]!r}", case)
    elif out[1] != exp:
        _viol(ctx, DUP_MECH if dup else "compactfilter-hash-differs", f"hash() = {bytes(out[1]).hex()} expected double-SHA256 of the filter {exp.hex()}", case)
    ctx.case(("cf-hash", src))


def post_cf_contains(args, kwargs, pre, out):
    ctx = contracts.ctx()
    cf, script = args[0], args[1]
    n = getattr(cf, "_vm_n", None)
    if n is None:
        return NotImplemented
    with_raw = outcome(script.raw_serialize)
    if with_raw[0] != "ok" or not _b(with_raw[1]):
        return NotImplemented
    raw = bytes(with_raw[1])
    values = cf._vm_values
    exp = fl.hash_to_range(bytes(cf.key), raw, n * fl.GCS_M) in set(values)
    inserted = _state["inserted"]
    is_member = inserted is not None and raw in inserted
    dup = len(set(values)) < len(values)
    flt_bytes = getattr(cf, "_vm_filter", None)
    if flt_bytes is None:
        flt_bytes = cf._vm_filter = fl.gcs_from_values(values)
        cf._vm_fh = fl.hash256(flt_bytes)
    case = {"op": "member", "key": bytes(cf.key), "filter": flt_bytes, "element": raw, "elements": _ins()}
    if is_member and not exp:
        ctx.count("monitor-crash:reference-filter-misses-inserted-element")
        return
    if out[0] == "exc":
        _viol(ctx, "membership-raises", f"raised {out[1]!r}", case)
    elif bool(out[1]) != exp:
        if exp:
            mech = DUP_MECH if dup else ("inserted-element-reported-absent" if is_member else "membership-differs-from-reference")
            _viol(ctx, mech, f"element {raw[:20].hex()}.. is {'an inserted element' if is_member else 'matched by the reference'} of the N={n} filter but reported absent", case)
        else:
            _viol(ctx, "membership-differs-from-reference", f"element {raw[:20].hex()}.. reported present, reference says absent (N={n})", case)
    if is_member:
        ctx.count("member:inserted-present" if out == ("ok", True) else "member:inserted-not-present")
        if _state["via"] == "cfilter":
            ctx.count("member:via-cfilter-message")
    elif inserted is not None:
        ctx.count("member:non-member-agrees-with-reference")
    ctx.case(("member", bytes(cf.key), cf._vm_fh, raw))


def post_cfilter_hash(args, kwargs, pre, out):
    ctx = contracts.ctx()
    fb = getattr(args[0], "filter_bytes", None)
    if not _b(fb):
        return NotImplemented
    exp = fl.filter_hash(bytes(fb))
    case = {"op": "filter", "key": None, "filter": bytes(fb)}
    if out[0] == "exc":
        _viol(ctx, "cfilter-hash-raises", f"raised {out[1]!r}", case)
    elif out[1] != exp:
        _viol(ctx, "cfilter-hash-differs", f"got {bytes(out[1]).hex()} expected {exp.hex()}", case)
    ctx.case(("cfilter-hash", bytes(fb)))


def post_cfheaders_init(args, kwargs, pre, out):
    ctx = contracts.ctx()
    if out[0] == "exc":
        return NotImplemented
    self = args[0]
    prev, hashes = self.previous_filter_header, self.filter_hashes
    if not _b(prev) or len(prev) != 32 or not isinstance(hashes, list) or not all(_b(h) and len(h) == 32 for h in hashes):
        return NotImplemented
    exp = fl.header_chain(bytes(prev), [bytes(h) for h in hashes])
    k = len(hashes)
    ctx.count("cfheaders:k=0" if k == 0 else ("cfheaders:k=1" if k == 1 else "cfheaders:k>=2"))
    case = {"op": "cfheaders", "prev": bytes(prev), "hashes": [bytes(h) for h in hashes]}
    if getattr(self, "last_header", None) != exp:
        _viol(ctx, "filter-header-chain-differs", f"{k} filter hashes: last_header differs from hash256(filter_hash || previous_header) chained", case)
    ctx.case(("cfheaders", bytes(prev), fl.hash256(b"".join(hashes))))


# ---- contracts: bloom -------------------------------------------------------------------------------
def snap_bloom(self, *a, **k):
    return list(self.bit_field)


def _bloom_ok(bf):
    return type(bf.size) is int and bf.size > 0 and type(bf.function_count) is int and bf.function_count >= 0 and type(bf.tweak) is int and 0 <= bf.tweak < 2**32


def post_bloom_add(args, kwargs, pre, out):
    ctx = contracts.ctx()
    bf, item = args[0], args[1]
    if not _b(item) or not _bloom_ok(bf) or len(pre) != bf.size * 8:
        return NotImplemented
    item = bytes(item)
    case = {"op": "bloom", "size": bf.size, "nfuncs": bf.function_count, "tweak": bf.tweak, "items": [item]}
    if out[0] == "exc":
        _viol(ctx, "bloom-add-raises", f"raised {out[1]!r}", case)
        return
    exp = list(pre)
    for pos in fl.bloom_bit_positions(item, bf.size, bf.function_count, bf.tweak):
        exp[pos] = 1
    if [1 if b else 0 for b in bf.bit_field] != exp:
        _viol(ctx, "bloom-bit-positions-differ", f"size={bf.size} nfuncs={bf.function_count} tweak={bf.tweak:#x} item len {len(item)}: bits set differ from murmur3(i*0xFBA4C795+tweak) mod size*8", case)
    for name, cond in (("size=1", bf.size == 1), ("size=36000", bf.size == 36000), ("nfuncs=1", bf.function_count == 1), ("nfuncs=50", bf.function_count == 50),
                       ("tweak=0xffffffff", bf.tweak == 0xFFFFFFFF), ("empty-item", len(item) == 0)):
        if cond:
            ctx.count("bloom:" + name)
    ctx.case(("bloom-add", bf.size, bf.function_count, bf.tweak, item))


def post_bloom_bytes(args, kwargs, pre, out):
    ctx = contracts.ctx()
    bf = args[0]
    if not _bloom_ok(bf) or len(pre) != bf.size * 8:
        return NotImplemented
    exp = bytearray(bf.size)
    for i, b in enumerate(pre):
        if b:
            exp[i >> 3] |= 1 << (i & 7)
    case = {"op": "bloom-bits", "size": bf.size, "set_bits": [i for i, b in enumerate(pre) if b][:2000]}
    if out[0] == "exc":
        _viol(ctx, "bloom-filter-bytes-raises", f"raised {out[1]!r}", case)
    elif out[1] != bytes(exp):
        _viol(ctx, "bloom-filter-bytes-differ", f"size={bf.size}: bit n must be bit (n&7) of byte n>>3", case)
    ctx.case(("bloom-bytes", bytes(exp)))


def post_filterload(args, kwargs, pre, out):
    ctx = contracts.ctx()
    bf = args[0]
    flag = args[1] if len(args) > 1 else kwargs.get("flag", 1)
    if not _bloom_ok(bf) or len(pre) != bf.size * 8 or type(flag) is not int or not 0 <= flag < 256 or bf.function_count >= 2**32:
        return NotImplemented
    v = bytearray(bf.size)
    for i, b in enumerate(pre):
        if b:
            v[i >> 3] |= 1 << (i & 7)
    exp = fl.filterload_payload(v, bf.function_count, bf.tweak, flag)
    case = {"op": "bloom-bits", "size": bf.size, "nfuncs": bf.function_count, "tweak": bf.tweak, "flag": flag, "set_bits": [i for i, b in enumerate(pre) if b][:2000]}
    if out[0] == "exc":
        _viol(ctx, "filterload-raises", f"raised {out[1]!r}", case)
    else:
        msg = out[1]
        if getattr(msg, "command", None) != b"filterload" or getattr(msg, "payload", None) != exp:
            _viol(ctx, "filterload-layout-differs", f"size={bf.size} nfuncs={bf.function_count} tweak={bf.tweak:#x} flag={flag}: payload differs from BIP37 layout", case)
    ctx.case(("filterload", bytes(v), bf.function_count, bf.tweak, flag))


def install():
    import buidl  # noqa: F401
    from buidl import bloomfilter, compactfilter, helper, siphash

    contracts.install(siphash.SipHash_2_4, "__init__", post_sip_init)
    contracts.install(siphash.SipHash_2_4, "update", post_sip_update)
    contracts.install(siphash.SipHash_2_4, "copy", post_sip_copy)
    contracts.install(siphash.SipHash_2_4, "hash", post_sip_hash)
    contracts.install(compactfilter, "_siphash", post_siphash_fn, label="compactfilter._siphash")
    contracts.install(helper, "_siphash", post_siphash_fn, label="helper._siphash")
    contracts.install(helper, "murmur3", post_murmur3)
    contracts.install(compactfilter, "hash_to_range", post_hash_to_range)
    contracts.install(compactfilter, "encode_golomb", post_encode_golomb)
    contracts.install(compactfilter, "decode_golomb", post_decode_golomb, snap=snap_decode_golomb)
    contracts.install(compactfilter, "pack_bits", post_pack_bits, snap=lambda bits: [1 if b else 0 for b in bits])
    contracts.install(compactfilter, "unpack_bits", post_unpack_bits)
    contracts.install(compactfilter, "encode_gcs", post_encode_gcs, snap=lambda key, items: list(items))
    contracts.install(compactfilter, "decode_gcs", post_decode_gcs)
    contracts.install(compactfilter.CompactFilter, "parse", post_cf_parse)
    contracts.install(compactfilter.CompactFilter, "serialize", post_cf_serialize)
    contracts.install(compactfilter.CompactFilter, "hash", post_cf_hash)
    contracts.install(compactfilter.CompactFilter, "__contains__", post_cf_contains)
    contracts.install(compactfilter.CFilterMessage, "hash", post_cfilter_hash)
    contracts.install(compactfilter.CFHeadersMessage, "__init__", post_cfheaders_init)
    contracts.install(bloomfilter.BloomFilter, "add", post_bloom_add, snap=snap_bloom)
    contracts.install(bloomfilter.BloomFilter, "filter_bytes", post_bloom_bytes, snap=snap_bloom)
    contracts.install(bloomfilter.BloomFilter, "filterload", post_filterload, snap=snap_bloom)


# ---- workload: hashes ----------------------------------------------------------------------------------
def msg_of(rng, n, style):
    if style == 0:
        return rng.getrandbits(8 * n).to_bytes(n, "big") if n else b""
    if style == 1:
        return b"\xff" * n
    if style == 2:
        return bytes((0x80 + i) & 0xFF for i in range(n))
    return bytes(n)


def wl_hashes(ctx, rng, idx, n):
    from buidl import compactfilter, helper
    from buidl.siphash import SipHash_2_4

    keys = [bytes(16), bytes(range(16)), b"\xff" * 16, b"0123456789ABCDEF"] + [rng.getrandbits(128).to_bytes(16, "big") for _ in range(2)]
    seeds = [0, 1, 0xFFFFFFFF, 0xFBA4C795, 0x7FFFFFFF, 0x80000000, 49 * 0xFBA4C795 + 0xFFFFFFFF, rng.getrandbits(32), rng.getrandbits(32)]
    reps = {"quick": 3, "thorough": 100}[ctx.tier]
    for rep in range(reps):
        for ln in range(0, 71):
            for style in range(4):
                m = msg_of(rng, ln, style)
                k = keys[(ln + style + rep) % len(keys)] if rep == 0 else rng.getrandbits(128).to_bytes(16, "big")
                outcome(compactfilter._siphash, k, m)
                # the object API, fed in pieces so that the buffered tail of update() is exercised
                cut = sorted(rng.randrange(0, ln + 1) for _ in range(rng.randrange(0, 4))) if ln else []
                pieces = [m[a:b] for a, b in zip([0] + cut, cut + [ln])]
                o = outcome(SipHash_2_4, k, pieces[0])
                if o[0] == "ok":
                    h = o[1]
                    for pc in pieces[1:]:
                        outcome(h.update, pc)
                    outcome(h.hash)
                    if style == 0:
                        c = outcome(h.copy)
                        outcome(h.update, b"x")
                        outcome(h.hash)
                        if c[0] == "ok":
                            outcome(c[1].hash)
                for s in (seeds if rep == 0 else [rng.getrandbits(32), rng.getrandbits(40)]):
                    outcome(helper.murmur3, m, s)
        outcome(helper._siphash, keys[rep % len(keys)], msg_of(rng, rng.randrange(0, 71), 0))
    for ln in (71, 127, 128, 129, 255, 256, 600, 1000):
        m = msg_of(rng, ln, 0)
        outcome(compactfilter._siphash, rng.getrandbits(128).to_bytes(16, "big"), m)
        outcome(helper.murmur3, m, rng.getrandbits(32))
    ctx.exhaustive.append("every message length 0..70 (all SipHash and Murmur3 tail lengths) x 4 byte patterns per shard")


# ---- workload: Golomb ----------------------------------------------------------------------------------
def wl_golomb(ctx, rng, idx, n):
    from buidl import compactfilter as cf

    xs = [0, 1, 2, 2**19 - 2, 2**19 - 1, 2**19, 2**19 + 1, 2**20 - 1, 2**20, 2**20 + 1, 2**21, 3 * 2**19 - 1, 2**25, 2**26 - 1, fl.GCS_M - 1, fl.GCS_M, fl.GCS_M + 1]
    xs += [rng.randrange(2**26) for _ in range({"quick": 600, "thorough": 20000}[ctx.tier])]
    xs += [rng.randrange(2**20) for _ in range({"quick": 300, "thorough": 10000}[ctx.tier])]
    for x in xs:
        o = outcome(cf.encode_golomb, x, fl.GCS_P)
        if o[0] != "ok":
            continue
        bits = list(o[1])
        p = outcome(cf.pack_bits, list(bits))
        if p[0] != "ok":
            continue
        u = outcome(cf.unpack_bits, p[1])
        if u[0] != "ok":
            continue
        d = outcome(cf.decode_golomb, list(u[1]), fl.GCS_P)
        if d[0] == "ok" and d[1] != x:
            _viol(ctx, "golomb-roundtrip", f"decode(unpack(pack(encode({x})))) = {d[1]}", {"op": "golomb", "x": x, "p": fl.GCS_P})
    for x, p in ((0, 2), (5, 2), (9, 2), (0, 8), (257, 8), (1, 1), (1000, 3), (12345, 0), (2**32 - 1, 20), (2**32 - 1, 32)):
        o = outcome(cf.encode_golomb, x, p)
        if o[0] == "ok":
            outcome(cf.decode_golomb, [1 if b else 0 for b in o[1]] + [0, 1, 1], p)
    # several codes in one bit string (how decode_gcs uses it)
    vals = [rng.randrange(2**21) for _ in range(20)]
    stream = []
    for v in vals:
        stream += fl.golomb_bits(v)
    stream = list(stream)
    for v in vals:
        outcome(cf.decode_golomb, stream, fl.GCS_P)


# ---- workload: filters ----------------------------------------------------------------------------------
def rand_script(rng, maxlen=600):
    kind = rng.randrange(9)
    if kind == 0:
        return bytes.fromhex("76a914") + rng.getrandbits(160).to_bytes(20, "big") + bytes.fromhex("88ac")
    if kind == 1:
        return bytes.fromhex("0014") + rng.getrandbits(160).to_bytes(20, "big")
    if kind == 2:
        return bytes.fromhex("a914") + rng.getrandbits(160).to_bytes(20, "big") + b"\x87"
    if kind == 3:
        return bytes.fromhex("0020") + rng.getrandbits(256).to_bytes(32, "big")
    if kind == 4:
        return bytes.fromhex("5120") + rng.getrandbits(256).to_bytes(32, "big")
    if kind == 5:
        ln = rng.choice([1, 2, 7, 8, 9, 15, 16, 17, 63, 64, 65, 599, 600])
    elif kind == 6:
        ln = rng.randrange(1, 30)
    else:
        ln = rng.randrange(1, maxlen + 1)
    ln = min(ln, maxlen)
    return rng.getrandbits(8 * ln).to_bytes(ln, "big")


def element_set(rng, n, with_empty=False):
    s = set()
    if with_empty and n:
        s.add(b"")
    while len(s) < n:
        s.add(rand_script(rng))
    out = list(s)
    rng.shuffle(out)
    return out


def as_script(raw, rng):
    """A real Script object when the bytes are a standard template, the duck-typed stand-in otherwise."""
    from buidl.script import Script

    if len(raw) in (22, 23, 25, 34) and rng.random() < 0.7:
        with contracts.suspended():
            o = outcome(Script.parse, BytesIO(fl.compact_size(len(raw)) + raw))
            if o[0] == "ok":
                r = outcome(o[1].raw_serialize)
                if r == ("ok", raw):
                    return o[1]
    return RawScript(raw)


def drive_filter(ctx, rng, key, items, query_cap, tag=None):
    """encode -> decode -> parse -> membership of inserted elements and of non-members -> serialize/hash -> cfilter message."""
    from buidl import compactfilter as cf

    inserted = frozenset(items)
    _state["inserted"] = inserted
    try:
        e = outcome(cf.encode_gcs, key, list(items))
        if e[0] != "ok":
            return
        raw = e[1]
        outcome(cf.decode_gcs, key, raw)
        p = outcome(cf.CompactFilter.parse, key, raw)
        if p[0] != "ok":
            return
        flt = p[1]
        q = list(items) if len(items) <= query_cap else rng.sample(list(items), query_cap)
        for el in q:
            r = outcome(flt.__contains__, as_script(el, rng))
            if r != ("ok", True):
                pass  # the contract has recorded it with the right mechanism
        for _ in range(min(8, query_cap)):
            nm = rand_script(rng, 80)
            if nm not in inserted:
                outcome(flt.__contains__, RawScript(nm))
        s = outcome(flt.serialize)
        outcome(flt.hash)
        if s[0] == "ok" and s[1] != raw and len(set(fl.hashed_set(key, list(items)))) == len(items):
            _viol(ctx, "decode-does-not-invert-encode", "CompactFilter.parse(encode_gcs(..)).serialize() != encode_gcs(..)", _els_case(key, items))
        # the constructor path used by clients that build a filter from values
        d = outcome(cf.CompactFilter, key, fl.hashed_set(key, list(items)))
        if d[0] == "ok":
            d[1]._vm_n, d[1]._vm_values, d[1]._vm_src = len(items), fl.hashed_set(key, list(items)), fl.gcs_encode(key, list(items))
            if getattr(d[1], "f", None) != len(items) * fl.GCS_M and len(items) <= 300:
                dup = len(set(d[1]._vm_values)) < len(items)
                _viol(ctx, DUP_MECH if dup else "compactfilter-init:wrong-F", f"CompactFilter(key, {len(items)} values).f = {d[1].f}, N*M = {len(items) * fl.GCS_M}",
                              {"op": "gcs", "key": key, "elements": list(items)})
            ctx.monitor("CompactFilter.__init__-F")
            for el in q[:4]:
                outcome(d[1].__contains__, RawScript(el))
            outcome(d[1].serialize)
        # through the network message (key = first 16 bytes of the block hash in internal order)
        block_hash_be = (key + rng.getrandbits(128).to_bytes(16, "big"))[::-1]  # block_hash[::-1][:16] == key
        m = outcome(cf.CFilterMessage, 0, block_hash_be, raw)
        if m[0] == "ok" and m[1].cf.key == key:
            _state["via"] = "cfilter"
            for el in q[:6]:
                outcome(m[1].__contains__, as_script(el, rng))
            _state["via"] = None
            outcome(m[1].hash)
        if tag:
            ctx.count(tag)
        ctx.sample({"op": "gcs", "key": key, "N": len(items), "filter": raw[:24], "first_element": items[0] if items else None})
    finally:
        _state["inserted"] = None
        _state["via"] = None


def find_collision_set(rng, key, n, candidates):
    f = n * fl.GCS_M
    pool = {}
    while len(pool) < candidates:
        s = rand_script(rng, 80)
        pool[s] = fl.siphash24(key, s)
    order = sorted(pool, key=lambda s: pool[s])
    for a, b in zip(order, order[1:]):
        if (pool[a] * f) >> 64 == (pool[b] * f) >> 64:
            others = [s for s in order if s not in (a, b)]
            rng.shuffle(others)
            els = [a, b] + others[: n - 2]
            rng.shuffle(els)
            return els
    return None


def wl_filters(ctx, rng, idx, n):
    quick = ctx.tier == "quick"
    # BIP158 vectors
    for block_hash, scripts, want, _prev, _hdr in fl._BIP158:
        key = bytes.fromhex(block_hash)[::-1][:16]
        drive_filter(ctx, rng, key, [bytes.fromhex(s) for s in scripts], 20, tag="vector:bip158")
    sizes = [0, 1, 2, 3, 5, 10, 30, 100, 252, 253, 254, 500, 1000, 2000]
    mine = [s for i, s in enumerate(sizes) if i % n == idx or (i + 7) % n == idx]
    mine += [rng.randrange(0, 60) for _ in range(24 if quick else 600)]
    mine += [rng.randrange(60, 400) for _ in range(4 if quick else 120)]
    if not quick:
        mine += [rng.randrange(400, 2001) for _ in range(20)] + [2000, 1999]
    for sz in mine:
        if ctx.out_of_time():
            return
        key = rng.choice([bytes(16), b"\xff" * 16, bytes(range(16))]) if rng.random() < 0.15 else rng.getrandbits(128).to_bytes(16, "big")
        drive_filter(ctx, rng, key, element_set(rng, sz, with_empty=rng.random() < 0.2), 40 if quick else 200)
    # element LISTS in which a script occurs more than once (a block paying one script in two outputs): the filter is
    # the filter of the set (decided by the encode_gcs contract)
    from buidl import compactfilter as _cf

    for sz in [1, 2, 3, 7, 40] + ([] if quick else [rng.randrange(1, 300) for _ in range(40)]):
        els = sorted(element_set(rng, sz))
        items = els + [rng.choice(els) for _ in range(rng.randrange(1, 4))]
        rng.shuffle(items)
        key = rng.getrandbits(128).to_bytes(16, "big")
        e = outcome(_cf.encode_gcs, key, items)
        if e[0] == "ok":
            outcome(_cf.decode_gcs, key, e[1])
    with open(os.path.join(VERIF_ROOT, "corpus", "c18_collisions.json")) as fh:
        corpus = json.load(fh)["witnesses"]
    for i, w in enumerate(corpus):
        if i % n == idx or (i + n // 2) % n == idx:
            els = [bytes.fromhex(e) for e in w["elements"]]
            key = bytes.fromhex(w["key"])
            vals = fl.hashed_set(key, els)
            if len(set(vals)) == len(vals) or fl.gcs_encode(key, els).hex() != w["filter"]:
                ctx.count("monitor-crash:corpus-witness-is-not-a-collision")
                continue
            drive_filter(ctx, rng, key, els, 300, tag="collision:corpus-witness")
    # fresh searches (reference SipHash only): N chosen small so that N*M is small
    for nn, cand in ([(2, 5000), (4, 7000)] if quick else [(2, 5000), (3, 6000), (4, 7000), (8, 9000), (20, 14000), (60, 24000)]):
        for _ in range(1 if quick else 3):
            for _attempt in range(6):
                key = rng.getrandbits(128).to_bytes(16, "big")
                els = find_collision_set(rng, key, nn, cand)
                if els:
                    drive_filter(ctx, rng, key, els, 100, tag="collision:fresh-witness")
                    break


def wl_headers(ctx, rng, idx, n):
    from buidl import compactfilter as cf

    for k in [0, 1, 2, 3, 5, 10] + ([252, 253] if idx % 4 == 0 else []) + [rng.randrange(0, 40) for _ in range(3 if ctx.tier == "quick" else 100)]:
        prev = rng.choice([bytes(32), rng.getrandbits(256).to_bytes(32, "big")])
        hashes = [rng.getrandbits(256).to_bytes(32, "big") for _ in range(k)]
        outcome(cf.CFHeadersMessage, 0, rng.getrandbits(256).to_bytes(32, "big"), prev, hashes)
        payload = b"\x00" + bytes(32) + prev + fl.compact_size(k) + b"".join(hashes)
        outcome(cf.CFHeadersMessage.parse, BytesIO(payload))
    # the published chain: header = hash256(filter_hash || previous header)
    for block_hash, scripts, want, prev_hex, hdr_hex in fl._BIP158:
        o = outcome(cf.CFHeadersMessage, 0, bytes.fromhex(block_hash), bytes.fromhex(prev_hex)[::-1], [fl.filter_hash(bytes.fromhex(want))])
        if o[0] == "ok" and o[1].last_header[::-1].hex() != hdr_hex:
            _viol(ctx, "filter-header-chain-differs", "BIP158 test vector header not reproduced", {"op": "cfheaders", "prev": bytes.fromhex(prev_hex)[::-1], "hashes": [fl.filter_hash(bytes.fromhex(want))]})


# ---- workload: bloom ----------------------------------------------------------------------------------
def wl_bloom(ctx, rng, idx, n):
    from buidl.bloomfilter import BloomFilter

    quick = ctx.tier == "quick"
    sizes = [1, 2, 3, 8, 10, 1000, 36000]
    combos = []
    for s in sizes:
        for nf in range(1, 51):
            combos.append((s, nf))
    tweaks = [0, 1, 99, 0xFFFFFFFF, 0xFBA4C795, 0x7FFFFFFF, 0x80000000]
    k = 0
    for (s, nf) in combos:
        k += 1
        if k % n != idx:
            continue
        if s == 36000 and quick and nf not in (1, 5, 50) and k % (n * 5) != idx:
            continue
        if ctx.out_of_time():
            return
        tw = tweaks[(k // n) % len(tweaks)] if rng.random() < 0.7 else rng.getrandbits(32)
        o = outcome(BloomFilter, s, nf, tw)
        if o[0] != "ok":
            continue
        bf = o[1]
        nitems = rng.choice([1, 2, 5]) if s >= 1000 and quick else rng.choice([1, 2, 5, 12])
        items = [msg_of(rng, rng.choice([0, 1, 2, 3, 4, 5, 20, 32, 33, 36, 70]), rng.choice([0, 0, 1, 2])) for _ in range(nitems)]
        if k % 3 == 0:
            items[0] = b""
        for it in items:
            outcome(bf.add, it)
        fb = outcome(bf.filter_bytes)
        if fb[0] == "ok" and isinstance(fb[1], (bytes, bytearray)) and len(fb[1]) == s:
            for it in items:
                ctx.monitor("bloom-membership-as-a-peer")
                if fl.bloom_contains(fb[1], it, nf, tw):
                    ctx.count("bloom:member-present")
                else:
                    _viol(ctx, "bloom-inserted-item-absent", f"size={s} nfuncs={nf} tweak={tw:#x}: a BIP37 peer would not match the inserted item",
                                  {"op": "bloom", "size": s, "nfuncs": nf, "tweak": tw, "items": items})
        outcome(bf.filterload)
        outcome(bf.filterload, rng.choice([0, 1, 2, 255]))
        if k % 50 == idx % 50:
            ctx.sample({"op": "bloom", "size": s, "nfuncs": nf, "tweak": tw, "items": items[:2], "bytes": fb[1][:16] if fb[0] == "ok" else None})
    # published vectors through the library
    bf = BloomFilter(3, 5, 0)
    for hx in ("99108ad8ed9bb6274d3980bab5a85c048f0950c8", "b5a2c786d9ef4658287ced5914b37a1b4aa32eee", "b9300670b4c5366e95b2699e8b18bc75e5f729c5"):
        outcome(bf.add, bytes.fromhex(hx))
    o = outcome(bf.filterload)
    if o[0] == "ok" and o[1].payload.hex() != "03614e9b050000000000000001":
        _viol(ctx, "filterload-layout-differs", "Bitcoin Core bloom_create_insert_serialize vector not reproduced", {"op": "bloom", "size": 3, "nfuncs": 5, "tweak": 0, "items": []})


# ---- shards ----------------------------------------------------------------------------------------------
def shards(tier, seed):
    n = 16
    return [{"name": "filters", "idx": i, "n": n, "budget_s": 900 if tier == "quick" else 5400} for i in range(n)]


def run_shard(desc, ctx):
    fl.selfcheck()
    install()
    idx, n = desc["idx"], desc["n"]
    wl_hashes(ctx, ctx.rng("hashes"), idx, n)
    wl_golomb(ctx, ctx.rng("golomb"), idx, n)
    wl_headers(ctx, ctx.rng("headers"), idx, n)
    wl_bloom(ctx, ctx.rng("bloom"), idx, n)
    wl_filters(ctx, ctx.rng("filters"), idx, n)


# ---- replay ----------------------------------------------------------------------------------------------
def replay(case, ctx):
    import random

    from buidl import compactfilter as cf
    from buidl import helper
    from buidl.bloomfilter import BloomFilter
    from buidl.siphash import SipHash_2_4

    fl.selfcheck()
    install()
    rng = random.Random(0)
    op = case.get("op")
    if op == "sip":
        outcome(cf._siphash, case["key"], case["msg"])
    elif op == "sip-object":
        o = outcome(SipHash_2_4, case["key"], case["msg"])
        if o[0] == "ok":
            outcome(o[1].hash)
    elif op == "murmur":
        outcome(helper.murmur3, case["data"], case["seed"])
    elif op == "range":
        outcome(cf.hash_to_range, case["key"], case["value"], case["f"])
    elif op == "golomb":
        o = outcome(cf.encode_golomb, case["x"], case["p"])
        outcome(cf.decode_golomb, fl.golomb_bits(case["x"], case["p"]) + [0, 1], case["p"])
        if o[0] == "ok":
            outcome(cf.pack_bits, list(o[1]))
    elif op == "pack":
        outcome(cf.pack_bits, list(case["bits"]))
    elif op == "unpack":
        outcome(cf.unpack_bits, case["raw"])
    elif op == "gcs":
        drive_filter(ctx, rng, case["key"], list(case["elements"]), 5000)
    elif op in ("filter", "member"):
        els = case.get("elements")
        if els and case.get("key") is not None:
            drive_filter(ctx, rng, case["key"], sorted(els), 5000)
        elif case.get("key") is not None:
            outcome(cf.decode_gcs, case["key"], case["filter"])
            p = outcome(cf.CompactFilter.parse, case["key"], case["filter"])
            if p[0] == "ok":
                outcome(p[1].serialize)
                outcome(p[1].hash)
                if case.get("element") is not None:
                    outcome(p[1].__contains__, RawScript(case["element"]))
        else:
            m = outcome(cf.CFilterMessage, 0, bytes(32), case["filter"])
            if m[0] == "ok":
                outcome(m[1].hash)
    elif op == "cfheaders":
        outcome(cf.CFHeadersMessage, 0, bytes(32), case["prev"], list(case["hashes"]))
    elif op == "bloom":
        bf = BloomFilter(case["size"], case["nfuncs"], case["tweak"])
        for it in case["items"]:
            outcome(bf.add, it)
        fb = outcome(bf.filter_bytes)
        if fb[0] == "ok":
            for it in case["items"]:
                ctx.monitor("bloom-membership-as-a-peer")
                if not fl.bloom_contains(fb[1], it, case["nfuncs"], case["tweak"]):
                    _viol(ctx, "bloom-inserted-item-absent", "a BIP37 peer would not match the inserted item", case)
        outcome(bf.filterload)
    elif op == "bloom-bits":
        bf = BloomFilter(case["size"], case.get("nfuncs", 1), case.get("tweak", 0))
        for i in case["set_bits"]:
            bf.bit_field[i] = 1
        outcome(bf.filter_bytes)
        outcome(bf.filterload, case.get("flag", 1))
