"""C03 - secp256k1 group law, generic field/curve axioms on small models, key encodings.

Monitors (contracts): Point.__add__, Point.__rmul__, S256Point.__rmul__, S256Point.__add__,
S256Point.sec / xonly / parse / parse_sec / parse_xonly - each compared with an independent
integer implementation (ref.ec for secp256k1, ref.smallcurve for small curves).
Exhaustive small models: every F_p with p <= 31 (all pairs / triples of elements, powers), every
curve y^2 = x^3 + 7 over F_p, 5 <= p <= 223, p != 7 (all ordered pairs of points incl. infinity).
"""
from ref import ec, smallcurve as sc
from vmon import contracts
from vmon.core import outcome
from vmon.util import N, P, rand_secret

PROPERTY_ID = "C03"
REPO_TEST_MODULES = ["test_pecc", "test_ecc", "test_schnorr"]  # thorough tier: run as an extra workload under the contracts
RULE = (
    "cases = (curve, P, Q) additions, (k, P) scalar multiplications, field-axiom instances on F_p, and byte strings "
    "given to the key parsers; every Point.__add__/__rmul__ call (also the ones inside double-and-add) is compared "
    "with integer affine formulas; distinct = concrete operands by hash; non-trivial = result compared with the "
    "reference (addition case split: infinity / opposite / distinct / doubling / 2-torsion doubling all required)"
)
ASSUMPTIONS = [
    "negative scalars are only given to S256Point (the generic Point.__rmul__ does not terminate on negative ints; not part of the small-curve claim)",
    "0**(k(p-1)) in FieldElement is not a field axiom and is not asserted",
    "x-only 0^32 is the library's documented encoding of the point at infinity; it is checked as a round trip of infinity, not as an accepted non-point",
    "small curves exclude p in {2,3,7} where y^2=x^3+7 is singular or the characteristic breaks the affine formulas",
]

ADD_CLASSES = ["add:inf+Q", "add:P+inf", "add:opposite", "add:distinct", "add:doubling", "add:doubling-2-torsion"]
REJECT_CLASSES = ["x>=p", "x-no-sqrt", "off-curve-65", "bad-prefix-33", "bad-prefix-65", "wrong-length", "xonly-x>=p", "xonly-no-sqrt", "y>=p-65"]

GATES = {
    "add-monitor-ran": ["Point.__add__"],
    "rmul-monitors-ran": ["Point.__rmul__", "S256Point.__rmul__", "S256Point.__add__"],
    "codec-monitors-ran": ["S256Point.sec", "S256Point.xonly", "S256Point.parse"],
    "add-case-split-small-curves": ["small:" + c for c in ADD_CLASSES],
    "add-case-split-secp256k1": ["s256:add:inf+Q", "s256:add:P+inf", "s256:add:opposite", "s256:add:distinct", "s256:add:doubling"],
    "field-axioms": ["field:assoc", "field:distrib", "field:inverse", "field:pow", "field:div"],
    "scalar-classes": ["scalar:0", "scalar:n", "scalar:n+1", "scalar:negative", "scalar:>2^256", "scalar:random", "scalar-on:negated-point-and-infinity"],
    "identities": ["ident:(a+b)G", "ident:a(bG)", "ident:nP", "ident:P+(-P)", "ident:P+P", "ident:P+int"],
    "encodings-both-parities": ["sec:even-y", "sec:odd-y", "sec:uncompressed", "encoding:x-in-[n,p)"],
    "reject-classes": ["reject:" + c for c in REJECT_CLASSES],
    "small-curve-order": ["small:ord*P=inf", "small:kP-repeated-addition"],
}

_st = {"dom": "s256"}


def anchors():
    from buidl import pecc

    return [pecc.Point.__add__, pecc.Point.__rmul__, pecc.S256Point.__rmul__, pecc.S256Point.parse_sec, pecc.S256Point.parse_xonly,
            pecc.S256Point.sec, pecc.FieldElement.__pow__, pecc.FieldElement.__truediv__]


def _pt(pt):
    return None if pt.x is None else (pt.x.num, pt.y.num)


def _curve(pt):
    from buidl.pecc import FieldElement

    if not isinstance(pt.a, FieldElement) or not isinstance(pt.b, FieldElement):
        return None
    return pt.a.num, pt.b.num, pt.a.prime


def _add_class(Pp, Qq, p):
    if Pp is None:
        return "add:inf+Q"
    if Qq is None:
        return "add:P+inf"
    if Pp == Qq:
        return "add:doubling-2-torsion" if Pp[1] == 0 else "add:doubling"
    if Pp[0] == Qq[0]:
        return "add:opposite"
    return "add:distinct"


def post_add(args, kwargs, pre, out):
    ctx = contracts.ctx()
    self, other = args[0], args[1]
    cv = _curve(self)
    if cv is None or not hasattr(other, "x") or _curve(other) != cv:
        return NotImplemented
    a, b, p = cv
    Pp, Qq = _pt(self), _pt(other)
    cls = _add_class(Pp, Qq, p)
    dom = "s256" if p == P else "small"
    ctx.count(f"{dom}:{cls}")
    exp = ec.add(Pp, Qq) if p == P else sc.add(Pp, Qq, a, p)
    case = {"op": "add", "p": p, "a": a, "b": b, "P": Pp, "Q": Qq}
    if out[0] == "exc":
        ctx.violation(f"point-add-raises:{cls}", f"{out[1]!r}", case)
        return
    got = _pt(out[1])
    if got != exp:
        ctx.violation(f"point-add-wrong:{cls}", f"got {got} expected {exp}", case)
    if dom == "small" or cls != "add:distinct" and cls != "add:doubling":
        ctx.case(case)
    elif ctx.monitors.get("Point.__add__", 0) % 64 == 0:
        ctx.case(case)  # secp256k1 double-and-add steps: register a sample of them as distinct cases


def post_point_rmul(args, kwargs, pre, out):
    ctx = contracts.ctx()
    self, k = args[0], args[1]
    cv = _curve(self)
    if cv is None or not isinstance(k, int) or k < 0:
        return NotImplemented
    a, b, p = cv
    Pp = _pt(self)
    case = {"op": "rmul", "p": p, "a": a, "b": b, "P": Pp, "k": k}
    if p == P:
        exp = ec.mul(k, Pp) if Pp is not None else None
    else:
        if Pp is None:
            exp = None
        else:
            exp = sc.mul_naive(k % sc.order(Pp, a, p), Pp, a, p)
    if out[0] == "exc":
        ctx.violation("scalar-mul-raises", f"{out[1]!r}", case)
        return
    if _pt(out[1]) != exp:
        ctx.violation("scalar-mul-wrong", f"got {_pt(out[1])} expected {exp}", case)
    ctx.case(case)


def post_s256_rmul(args, kwargs, pre, out):
    ctx = contracts.ctx()
    self, k = args[0], args[1]
    if not isinstance(k, int):
        return NotImplemented
    Pp = _pt(self)
    case = {"op": "s256-rmul", "P": Pp, "k": k}
    exp = ec.mul(k, Pp) if Pp is not None else None
    if out[0] == "exc":
        ctx.violation("scalar-mul-raises", f"{out[1]!r}", case)
        return
    got = _pt(out[1])
    if got != exp:
        ctx.violation("scalar-mul-wrong", f"k={k} got {got} expected {exp}", case)
    if exp is not None and not ec.on_curve(got if got else None):
        ctx.violation("result-off-curve", f"k={k}", case)
    ctx.case(case)


def post_s256_add(args, kwargs, pre, out):
    ctx = contracts.ctx()
    self, other = args[0], args[1]
    Pp = _pt(self)
    if isinstance(other, int):
        exp = ec.add(Pp, ec.mul(other))
        case = {"op": "s256-add-int", "P": Pp, "k": other}
    elif hasattr(other, "x"):
        exp = ec.add(Pp, _pt(other))
        case = {"op": "s256-add", "P": Pp, "Q": _pt(other)}
    else:
        return NotImplemented
    if out[0] == "exc":
        ctx.violation("s256-add-raises", f"{out[1]!r}", case)
        return
    if _pt(out[1]) != exp:
        ctx.violation("s256-add-wrong", f"got {_pt(out[1])} expected {exp}", case)


def post_sec(args, kwargs, pre, out):
    ctx = contracts.ctx()
    self = args[0]
    compressed = args[1] if len(args) > 1 else kwargs.get("compressed", True)
    Pp = _pt(self)
    if Pp is None:
        return NotImplemented
    case = {"op": "sec", "P": Pp, "compressed": bool(compressed)}
    if out[0] == "exc":
        ctx.violation("sec-raises", f"{out[1]!r}", case)
        return
    if out[1] != ec.sec(Pp, bool(compressed)):
        ctx.violation("sec-wrong", f"got {out[1].hex()}", case)
    ctx.count("sec:uncompressed" if not compressed else ("sec:odd-y" if Pp[1] & 1 else "sec:even-y"))
    ctx.case(case)


def post_xonly(args, kwargs, pre, out):
    ctx = contracts.ctx()
    Pp = _pt(args[0])
    exp = b"\x00" * 32 if Pp is None else ec.b32(Pp[0])
    if out[0] == "exc" or out[1] != exp:
        ctx.violation("xonly-wrong", f"{out[1]!r}", {"op": "xonly", "P": Pp})


def classify_bad(b):
    if len(b) == 32:
        x = int.from_bytes(b, "big")
        return "xonly-x>=p" if x >= P else "xonly-no-sqrt"
    if len(b) == 33:
        if b[0] not in (2, 3):
            return "bad-prefix-33"
        x = int.from_bytes(b[1:], "big")
        return "x>=p" if x >= P else "x-no-sqrt"
    if len(b) == 65:
        if b[0] != 4:
            return "bad-prefix-65"
        x, y = int.from_bytes(b[1:33], "big"), int.from_bytes(b[33:], "big")
        if x >= P:
            return "x>=p"
        if y >= P:
            return "y>=p-65"
        return "off-curve-65"
    return "wrong-length"


def post_parse(args, kwargs, pre, out):
    """S256Point.parse(binary): 32 -> x-only, 33/65 -> SEC, anything else rejected."""
    ctx = contracts.ctx()
    b = args[1]
    if not isinstance(b, (bytes, bytearray)):
        return NotImplemented
    b = bytes(b)
    case = {"op": "parse", "bytes": b}
    if len(b) == 32:
        if b == b"\x00" * 32:
            ctx.count("observed:xonly-zero-parses-as-infinity")
            if out[0] == "ok" and _pt(out[1]) is not None:
                ctx.violation("xonly-zero-not-infinity", "0^32 parsed to a finite point", case)
            return
        exp = ec.lift_x(int.from_bytes(b, "big"))
    else:
        exp = ec.parse_sec(b)
    if exp is None:
        cls = classify_bad(b)
        ctx.count("reject:" + cls)
        if out[0] == "ok":
            ctx.violation("parse-accepts-non-point:" + cls, f"{b.hex()} -> {_pt(out[1])}", case)
        else:
            ctx.rejected_by_exception += 1
    else:
        if out[0] == "exc":
            ctx.violation("parse-rejects-valid-encoding", f"{b.hex()}: {out[1]!r}", case)
        elif _pt(out[1]) != exp:
            ctx.violation("parse-wrong-point", f"{b.hex()} -> {_pt(out[1])} expected {exp}", case)
    ctx.case(case)


def install():
    from buidl import pecc

    contracts.install(pecc.Point, "__add__", post_add)
    contracts.install(pecc.Point, "__rmul__", post_point_rmul)
    contracts.install(pecc.S256Point, "__rmul__", post_s256_rmul)
    contracts.install(pecc.S256Point, "__add__", post_s256_add)
    contracts.install(pecc.S256Point, "sec", post_sec)
    contracts.install(pecc.S256Point, "xonly", post_xonly)
    contracts.install(pecc.S256Point, "parse", post_parse)


# ---- small models ---------------------------------------------------------------------------
FIELD_PRIMES = [2, 3, 5, 7, 11, 13, 17, 19, 23, 29, 31]
CURVE_PRIMES = [p for p in range(5, 224) if sc.is_prime(p) and p != 7]


def field_model(ctx, p):
    from buidl.pecc import FieldElement as F

    def bad(mech, what, **kw):
        ctx.violation("field-axiom:" + mech, what, dict(op="field", p=p, **kw))

    els = [F(i, p) for i in range(p)]
    zero, one = els[0], els[1 % p]
    for a in els:
        for b in els:
            ctx.monitor("field-pair")
            s, m, d = a + b, a * b, a - b
            if s.num != (a.num + b.num) % p or m.num != a.num * b.num % p or d.num != (a.num - b.num) % p:
                bad("op-value", f"{a}+-*{b}", a=a.num, b=b.num)
            if not (0 <= s.num < p and 0 <= m.num < p and 0 <= d.num < p and s.prime == p):
                bad("closure", f"{a},{b}", a=a.num, b=b.num)
            if s != b + a or m != b * a:
                bad("commutativity", f"{a},{b}", a=a.num, b=b.num)
            if (a - b) + b != a:
                bad("sub-inverse", f"{a},{b}", a=a.num, b=b.num)
            if b.num != 0:
                q = a / b
                ctx.count("field:div")
                if q * b != a or q.num != a.num * pow(b.num, -1, p) % p:
                    bad("division", f"{a}/{b}", a=a.num, b=b.num)
            ctx.case(("field-pair", p, a.num, b.num))
            for c in els if p <= 31 else ():
                ctx.monitor("field-triple")
                if (a + b) + c != a + (b + c) or (a * b) * c != a * (b * c):
                    bad("associativity", f"{a},{b},{c}", a=a.num, b=b.num, c=c.num)
                if a * (b + c) != a * b + a * c:
                    bad("distributivity", f"{a},{b},{c}", a=a.num, b=b.num, c=c.num)
                ctx.count("field:assoc")
                ctx.count("field:distrib")
        if a + zero != a or a * one != a:
            bad("identity", f"{a}", a=a.num)
        if a.num != 0:
            ctx.count("field:inverse")
            if (one / a) * a != one or a + (zero - a) != zero:
                bad("inverse", f"{a}", a=a.num)
            for k in range(-p, 2 * p + 1):
                ctx.count("field:pow")
                ctx.monitor("field-pow")
                exp = pow(a.num, k, p)
                if (a**k).num != exp:
                    bad("pow", f"{a}**{k}", a=a.num, k=k)
        else:
            for k in range(1, max(1, p - 1)):
                if (a**k).num != 0:
                    bad("pow-zero", f"0**{k}", a=0, k=k)
        for k in (0, 1, 2, p, p + 1, 5 * p + 3, -1, -p):
            if (k * a).num != (k * a.num) % p:
                bad("int-rmul", f"{k}*{a}", a=a.num, k=k)
    ctx.exhaustive.append(f"F_{p}: all pairs, triples, powers -p..2p")


def curve_model(ctx, p, full_assoc_limit=40):
    from buidl.pecc import FieldElement as F, Point

    a, b = F(0, p), F(7 % p, p)
    ref_pts = sc.points(p, 0, 7 % p)
    pts = {None: Point(None, None, a, b)}
    for (x, y) in ref_pts:
        o = outcome(Point, F(x, p), F(y, p), a, b)
        if o[0] != "ok":
            ctx.violation("curve-membership-rejects-point", f"p={p} ({x},{y}): {o[1]}", {"op": "member", "p": p, "x": x, "y": y})
            return
        pts[(x, y)] = o[1]
    # a few non-points must be refused by the constructor
    rp = set(ref_pts)
    bad_seen = 0
    for x in range(p):
        for y in range(p):
            if (x, y) not in rp and bad_seen < 2 * p:
                bad_seen += 1
                ctx.monitor("curve-membership")
                if outcome(Point, F(x, p), F(y, p), a, b)[0] == "ok":
                    ctx.violation("curve-membership-accepts-non-point", f"p={p} ({x},{y})", {"op": "member", "p": p, "x": x, "y": y})
    keys = list(pts)
    # all ordered pairs: the contract on Point.__add__ decides each one
    for k1 in keys:
        for k2 in keys:
            outcome(pts[k1].__add__, pts[k2])
    ctx.exhaustive.append(f"y^2=x^3+7 over F_{p}: all {len(keys)}^2 ordered pairs of points")
    group = len(keys)
    if group <= full_assoc_limit:
        for k1 in keys:
            for k2 in keys:
                for k3 in keys:
                    ctx.monitor("curve-assoc")
                    with contracts.suspended():
                        l = outcome(lambda: (pts[k1] + pts[k2]) + pts[k3])
                        r = outcome(lambda: pts[k1] + (pts[k2] + pts[k3]))
                    if l[0] == "ok" and r[0] == "ok" and l[1] != r[1]:
                        ctx.violation("curve-associativity", f"p={p} {k1},{k2},{k3}", {"op": "assoc", "p": p, "P": k1, "Q": k2, "R": k3})
        ctx.exhaustive.append(f"y^2=x^3+7 over F_{p}: associativity on all triples")
    # scalar multiples: k*P == repeated addition for 0 <= k <= 2*ord; ord*P = infinity
    for k1 in keys:
        if k1 is None:
            continue
        o_ = sc.order(k1, 0, p)
        rng_k = range(0, 2 * o_ + 1) if p <= 61 or k1[0] % 7 == 0 else (0, 1, 2, o_ - 1, o_, o_ + 1, 2 * o_)
        for k in rng_k:
            ctx.count("small:kP-repeated-addition")
            outcome(pts[k1].__rmul__, k)  # decided by the contract on Point.__rmul__
        ctx.count("small:ord*P=inf")
        with contracts.suspended():
            z = outcome(pts[k1].__rmul__, o_)
        ctx.monitor("curve-order")
        if z[0] != "ok" or z[1].x is not None:
            ctx.violation("order-multiple-not-infinity", f"p={p} P={k1} ord={o_}", {"op": "rmul", "p": p, "a": 0, "b": 7 % p, "P": k1, "k": o_})


# ---- secp256k1 ------------------------------------------------------------------------------
def scalar_catalogue(rng):
    cat = [("scalar:0", 0), ("scalar:1", 1), ("scalar:2", 2), ("scalar:n-1", N - 1), ("scalar:n", N), ("scalar:n+1", N + 1),
           ("scalar:negative", -1), ("scalar:negative", -N), ("scalar:negative", -rng.getrandbits(200)),
           ("scalar:>2^256", 2**256), ("scalar:>2^256", 2**256 + 5), ("scalar:>2^256", 3 * N + 2), ("scalar:>2^256", rng.getrandbits(300) | (1 << 299)),
           ("scalar:random", rand_secret(rng)), ("scalar:random", rand_secret(rng))]
    return cat


def s256_work(ctx, rng, idx, n, rounds):
    from buidl.pecc import G, S256Point

    inf = S256Point(None, None)

    def lib_pt(k):
        with contracts.suspended():
            return k * G

    for rnd in range(rounds):
        if ctx.out_of_time():
            return
        cat = scalar_catalogue(rng)
        # scalars (each shard takes a slice of the catalogue per round, all take the random ones)
        base = lib_pt(rand_secret(rng))
        for i, (cls, k) in enumerate(cat):
            if i % 4 != (idx + rnd) % 4 and cls != "scalar:random":
                continue
            ctx.count(cls)
            outcome(lambda: k * G)
            outcome(lambda: k * base)
            # the same scalar on the opposite point (same x, other parity) and on the point at infinity:
            # results are functions of (k, point), whatever was multiplied before in this process
            outcome(lambda: k * (-1 * base))
            outcome(lambda: k * inf)
            ctx.count("scalar-on:negated-point-and-infinity")
        a, b = rand_secret(rng), rand_secret(rng)
        A, B = lib_pt(a), lib_pt(b)
        ident = [
            ("ident:(a+b)G", lambda: ((a + b) * G, A + B)),
            ("ident:a(bG)", lambda: (a * B, ((a * b) % N) * G)),
            ("ident:nP", lambda: (N * A, inf)),
            ("ident:P+(-P)", lambda: (A + (-1 * A), inf)),
            ("ident:P+P", lambda: (A + A, 2 * A)),
            ("ident:P+int", lambda: (A + b, A + B)),
            ("ident:P+inf", lambda: (A + inf, A)),
            ("ident:inf+P", lambda: (inf + A, A)),
            ("ident:inf+inf", lambda: (inf + inf, inf)),
        ]
        for name, f in ident:
            ctx.count(name)
            o = outcome(f)
            ctx.monitor("identity")
            case = {"op": "ident", "name": name, "a": a, "b": b}
            if o[0] != "ok":
                ctx.violation("identity-raises:" + name, o[1], case)
            elif _pt(o[1][0]) != _pt(o[1][1]):
                ctx.violation("identity-fails:" + name, f"{_pt(o[1][0])} != {_pt(o[1][1])}", case)
            ctx.case(case)
        # encodings
        for pt_k in (a, b, rand_secret(rng)):
            Pp = ec.mul(pt_k)
            L = lib_pt(pt_k)
            for comp in (True, False):
                o = outcome(L.sec, comp)
                if o[0] == "ok":
                    back = outcome(S256Point.parse, o[1])
                    if back[0] == "ok" and _pt(back[1]) != Pp:
                        ctx.violation("sec-roundtrip", f"k={pt_k}", {"op": "parse", "bytes": o[1]})
            o = outcome(L.xonly)
            if o[0] == "ok":
                back = outcome(S256Point.parse, o[1])
                if back[0] == "ok" and _pt(back[1]) != ec.lift_x(Pp[0]):
                    ctx.violation("xonly-roundtrip", f"k={pt_k}", {"op": "parse", "bytes": o[1]})
            # reference-encoded bytes parsed by the library (other direction)
            outcome(S256Point.parse, ec.sec(Pp, True))
            outcome(S256Point.parse, ec.sec(Pp, False))
            outcome(S256Point.parse, ec.b32(Pp[0]))
            ctx.sample({"k": pt_k, "sec": ec.sec(Pp)})
        # points whose x lies in [n, p) (only ~2^128 of them, never hit by random keys) and just below p
        special = [x for x in range(P - 1, P - 60, -1) if ec.lift_x(x) is not None][:2] + [x for x in range(N, N + 60) if ec.lift_x(x) is not None][:2]
        for x in special:
            pt = ec.lift_x(x, odd=bool(rnd & 1))
            ctx.count("encoding:x-in-[n,p)")
            for enc in (ec.sec(pt, True), ec.sec(pt, False), ec.b32(x)):
                back = outcome(S256Point.parse, enc)  # decided by the parse contract
                if back[0] == "ok" and len(enc) == 32:
                    outcome(back[1].xonly)
        # infinity through the x-only codec
        o = outcome(inf.xonly)
        if o[0] == "ok":
            outcome(S256Point.parse, o[1])
        # rejections
        for b_ in bad_encodings(rng):
            outcome(S256Point.parse, b_)


def no_sqrt_x(rng):
    while True:
        x = rng.randrange(1, P)
        if ec.lift_x(x) is None:
            return x


def bad_encodings(rng):
    good = ec.mul(rand_secret(rng))
    xb, yb = ec.b32(good[0]), ec.b32(good[1])
    out = []
    out.append(bytes([rng.choice([2, 3])]) + ec.b32(P + rng.randrange(2**256 - P)))  # x >= p
    out.append(bytes([rng.choice([2, 3])]) + ec.b32(P))
    out.append(bytes([rng.choice([2, 3])]) + ec.b32(no_sqrt_x(rng)))  # no sqrt
    # x = 0 and the other small x with no square root, under both parities (x = 0 is the value an x-only
    # decoder may map to infinity: as a compressed key it is not a point)
    for x in [0] + [x for x in range(1, 12) if ec.lift_x(x) is None][:2]:
        for pre in (2, 3):
            out.append(bytes([pre]) + ec.b32(x))
    out.append(b"\x04" + ec.b32(0) + ec.b32(0))
    out.append(b"\x04" + ec.b32(0) + yb)
    out.append(b"\x04" + xb + ec.b32((good[1] + 1) % P))  # off curve
    out.append(b"\x04" + ec.b32(no_sqrt_x(rng)) + yb)
    out.append(b"\x04" + ec.b32(P + 1) + yb)
    out.append(b"\x04" + xb + ec.b32(P + rng.randrange(2**256 - P)))  # y >= p
    # coordinates congruent to a real point but >= p (only points with x < 2^256 - p exist for this): x + p
    small = [x for x in range(1, 40) if ec.lift_x(x) is not None][:4]
    for x in small:
        pt = ec.lift_x(x, odd=bool(rng.getrandbits(1)))
        out.append(b"\x04" + ec.b32(x + P) + ec.b32(pt[1]))
        out.append(bytes([2 + (pt[1] & 1)]) + ec.b32(x + P))
        out.append(ec.b32(x + P))  # x-only
    for pre in (0, 1, 5, 6, 7, 0x82, 0xFF, 4):
        out.append(bytes([pre]) + xb)  # bad prefix, 33 bytes (4 + 32 bytes is also invalid)
    for pre in (0, 2, 3, 5, 6, 7):
        out.append(bytes([pre]) + xb + yb)  # bad prefix, 65 bytes (6/7 hybrid are not accepted encodings here)
    # compressed prefix on a 65-byte string whose first 32 payload bytes are zero: read as ONE 64-byte integer the
    # payload equals the x coordinate, so a decoder that does not check the length sees a valid compressed key
    out.append(bytes([2 + (good[1] & 1)]) + bytes(32) + xb)
    out.append(bytes([3 - (good[1] & 1)]) + bytes(32) + xb)
    out.append(bytes([2 + (good[1] & 1)]) + bytes(31) + xb)  # 64 bytes: wrong length
    out.append(b"\x04" + xb)  # uncompressed prefix on 33 bytes
    for ln in (0, 1, 31, 34, 64, 66):
        out.append((b"\x02" + xb + yb + b"\x00")[:ln])
    out.append(ec.b32(P + rng.randrange(2**256 - P)))  # x-only x >= p
    out.append(ec.b32(P))
    out.append(ec.b32(no_sqrt_x(rng)))
    return out


def shards(tier, seed):
    out = []
    n = 16
    for i in range(n):
        out.append({"name": "small-models", "idx": i, "n": n, "budget_s": 1200})
    rounds = 2 if tier == "quick" else 40
    for i in range(n):
        out.append({"name": "secp256k1", "idx": i, "n": n, "rounds": rounds, "budget_s": 900 if tier == "quick" else 5400})
    return out


def run_shard(desc, ctx):
    ec.selfcheck()
    sc.selfcheck()
    install()
    idx, n = desc["idx"], desc["n"]
    if desc["name"] == "small-models":
        for i, p in enumerate(FIELD_PRIMES):
            if i % n == idx:
                field_model(ctx, p)
        # spread curves so that each shard gets a mix of small and large primes
        for i, p in enumerate(CURVE_PRIMES):
            if i % n == idx:
                curve_model(ctx, p)
    else:
        s256_work(ctx, ctx.rng(), idx, n, desc["rounds"])


def replay(case, ctx):
    from buidl.pecc import FieldElement as F, Point, S256Point, G

    install()
    op = case.get("op")
    if op in ("add", "rmul", "assoc"):
        p = case["p"]
        a, b = F(case.get("a", 0), p), F(case.get("b", 7 % p), p)

        def mk(t):
            if p == P:
                return S256Point(None, None) if t is None else S256Point(t[0], t[1])
            return Point(None, None, a, b) if t is None else Point(F(t[0], p), F(t[1], p), a, b)

        if op == "add":
            outcome(lambda: mk(case["P"]) + mk(case["Q"]))
        elif op == "rmul":
            outcome(lambda: case["k"] * mk(case["P"]))
        else:
            outcome(lambda: (mk(case["P"]) + mk(case["Q"])) + mk(case["R"]))
    elif op == "s256-rmul":
        Pp = case["P"]
        outcome(lambda: case["k"] * (S256Point(Pp[0], Pp[1]) if Pp else S256Point(None, None)))
    elif op == "parse":
        outcome(S256Point.parse, case["bytes"])
    elif op == "field":
        field_model(ctx, case["p"])
    elif op == "ident":
        s256_work(ctx, ctx.rng(), 0, 1, 1)
