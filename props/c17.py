"""C17 - Merkle roots, BIP37 SPV proofs, header hash / proof of work / linkage / compact bits / retarget.

Monitors (contracts on the real functions, see vmon.contracts):
  helper.merkle_root / merkle_parent_level     == reference ComputeMerkleRoot (argument mutation recorded)
  MerkleBlock.is_valid / proved_txs            traversal == port of CPartialMerkleTree::ExtractMatches;
                                               honest proof => True and exactly the matched ids in order;
                                               any validating proof => ids are ids of the block
  Block.hash / serialize / target / check_pow / validate_merkle_root
  helper.bits_to_target / target_to_bits / calculate_new_bits   == arith_uint256 SetCompact/GetCompact and
                                               CalculateNextWorkRequired
  HeadersMessage.is_valid                      == every header's proof of work and prev-hash linkage
Workloads: roots of every size 1..300 and sampled sizes <= 5000; all trees with 1..10 leaves x all 2^n match
sets; sampled trees <= 5000 leaves; tamper catalogue on every proof (hash bits, root bits, flag bits, count bits,
dropped / extra / swapped hashes); compact-bits catalogue exponent x mantissa boundary set; `hash256` stubbed
inside buidl.block to put the header hash at target-1 / target / target+1; brute-force mined low-difficulty
headers and chains (then broken link / broken proof of work); retarget across the clamps.
"""
import struct
from io import BytesIO

from ref import chain as ch
from vmon import contracts
from vmon.core import outcome

PROPERTY_ID = "C17"
REPO_TEST_MODULES = ["test_block", "test_merkleblock", "test_helper"]  # thorough tier: extra workload under the contracts
RULE = (
    "cases = (a) id lists given to merkle_root, (b) merkleblock messages (honest BIP37 proofs built by the reference "
    "CPartialMerkleTree port for a generated block, and single alterations of them) parsed by MerkleBlock.parse and "
    "judged by is_valid/proved_txs, (c) 80-byte headers through Block.hash/target/check_pow (real digest, or a digest "
    "placed by stubbing hash256 inside buidl.block), (d) compact bits / targets / (bits, timespan) pairs through "
    "bits_to_target / target_to_bits / calculate_new_bits, (e) header chains through HeadersMessage.is_valid; every case "
    "is decided by a contract on the real function comparing with ref/chain.py; distinct = distinct concrete inputs by "
    "hash; non-trivial = the contract reached a comparison with the reference (for tampered proofs: the altered proof "
    "differs from the honest one and the library's verdict was observed)"
)
ASSUMPTIONS = [
    "no proof-of-work-limit (powLimit) test is demanded of check_pow; negative, zero and overflowing compact targets must fail as in CheckProofOfWork",
    "for altered flag bits / transaction count / dropped / extra / swapped hashes only 'ids yielded by a validating proof are ids of the block' is demanded; for altered hash bits and root bits validation must fail",
    "multi-field forgeries (e.g. a smaller transaction count presenting inner nodes as leaves, which Bitcoin Core's extractor accepts too) are outside the quantifier and only counted as observed:*",
    "compact bits -> target VALUES are asserted for exponent 1..32 (the quantifier), the proof-of-work verdict for every exponent byte (overflow); retarget is asserted for previous targets in (0, 2^224) where arith_uint256 does not wrap",
    "transaction counts above 2^25 make MerkleTree allocate gigabytes; the shard runs under RLIMIT_AS (512 MB) so that such a proof ends in MemoryError (a rejection)",
]

TAMPERS = ["hash-bit", "root-bit", "flag-bit", "count-bit", "drop-hash", "extra-hash", "swap-hashes"]

GATES = {
    "root-monitors-ran": ["merkle_root", "merkle_parent_level", "Block.validate_merkle_root"],
    "proof-monitors-ran": ["MerkleBlock.is_valid", "MerkleBlock.proved_txs"],
    "header-monitors-ran": ["Block.hash", "Block.serialize", "Block.target", "Block.check_pow", "HeadersMessage.is_valid"],
    "bits-monitors-ran": ["bits_to_target", "target_to_bits", "calculate_new_bits"],
    "tree-shapes": ["tree:single-leaf", "tree:odd-level", "tree:power-of-two", "tree:right-child-missing-above-leaves"],
    "object-reuse": ["reuse:same-object-validated-twice", "reuse:validated-object-edited-then-validated"],
    "match-shapes": ["proof:none-matched", "proof:all-matched", "proof:single-match", "proof:last-leaf-of-odd-level-matched"],
    "honest-accepted": ["proof:honest-accepted"],
    "tamper-classes": ["tamper:" + t for t in TAMPERS],
    "tamper-outcomes": ["tamper:rejected", "tamper:still-valid-ids-subset"],
    "pow-boundary": ["pow:stub-hash=target-1", "pow:stub-hash=target", "pow:stub-hash=target+1"],
    "pow-real": ["pow:mined-valid", "pow:real-hash-above-target"],
    "pow-every-exponent": ["pow:bits-exponent-outside-1..32", "pow:overflowing-bits"],
    "bits-classes": ["bits:exponent<3", "bits:sign-bit", "bits:zero-mantissa", "bits:exponent=32", "target:below-2^16", "target:high-bit-first-byte"],
    "retarget-classes": [
        "retarget:dt<=0", "retarget:dt=T/4-1", "retarget:dt=T/4", "retarget:dt=T/4+1", "retarget:dt=T", "retarget:dt=4T-1",
        "retarget:dt=4T", "retarget:dt=4T+1", "retarget:dt=2^31", "retarget:pow-limit-cap", "retarget:core-vectors",
    ],
    "chains": ["chain:valid", "chain:broken-link", "chain:broken-pow", "chain:single-header"],
}

T = ch.TARGET_TIMESPAN
_state = {"ids": None, "honest": None, "tamper": None, "stub": None, "chain_class": None, "label": None, "n": None, "midx": None}

MAX_PER_MECHANISM = 6
_mech_seen = {}


def _viol(ctx, mechanism, what, case):
    """Keep the first few violations of each mechanism per shard (the harness keeps 200 per shard in total;
    thousands of repeats of one mechanism must not crowd out a different one); repeats are counted."""
    k = _mech_seen.get(mechanism, 0) + 1
    _mech_seen[mechanism] = k
    if k <= MAX_PER_MECHANISM:
        ctx.violation(mechanism, what, case)
    else:
        ctx.count("violation-repeats:" + mechanism)



def anchors():
    from buidl import block, helper, merkleblock, network

    return [
        helper.merkle_parent_level, helper.merkle_root, helper.bits_to_target, helper.target_to_bits, helper.calculate_new_bits,
        merkleblock.MerkleTree.__init__, merkleblock.MerkleTree.populate_tree, merkleblock.MerkleBlock.is_valid,
        block.Block.check_pow, block.Block.hash, block.Block.target, network.HeadersMessage.is_valid,
    ]


# ---- helpers -----------------------------------------------------------------------------
def _is_hash_list(x):
    return isinstance(x, list) and len(x) > 0 and all(isinstance(h, (bytes, bytearray)) and len(h) == 32 for h in x)


def block_ids(label, n):
    """Deterministic transaction ids (internal byte order) of a generated block."""
    return [ch.hash256(label + struct.pack("<I", i)) for i in range(n)]


def _hdr_fields(b):
    """Fields of a library Block as the reference wants them, or None if they are not header-shaped."""
    try:
        ok = (
            isinstance(b.version, int) and 0 <= b.version < 2**32 and isinstance(b.timestamp, int) and 0 <= b.timestamp < 2**32
            and isinstance(b.prev_block, (bytes, bytearray)) and len(b.prev_block) == 32
            and isinstance(b.merkle_root, (bytes, bytearray)) and len(b.merkle_root) == 32
            and isinstance(b.bits, (bytes, bytearray)) and len(b.bits) == 4
            and isinstance(b.nonce, (bytes, bytearray)) and len(b.nonce) == 4
        )
    except AttributeError:
        return None
    if not ok:
        return None
    return (b.version, bytes(b.prev_block), bytes(b.merkle_root), b.timestamp, bytes(b.bits), bytes(b.nonce))


def _raw_of(b):
    f = _hdr_fields(b)
    return None if f is None else ch.header_serialize(*f)


def _exp_in_quantifier(bits4):
    return 1 <= bits4[3] <= 32


# ---- contracts: merkle root --------------------------------------------------------------
def post_merkle_root(args, kwargs, pre, out):
    ctx = contracts.ctx()
    if not _is_hash_list(pre):
        return NotImplemented
    n = len(pre)
    case = {"op": "root", "n": n, "label": _state["label"], "leaves": None if _state["label"] is not None else [bytes(h) for h in pre][:64]}
    exp = ch.merkle_root([bytes(h) for h in pre])
    if out[0] == "exc":
        _viol(ctx, "merkle-root-raises", f"merkle_root raised {out[1]!r} on {n} leaves", case)
        return
    if out[1] != exp:
        _viol(ctx, "merkle-root-differs", f"n={n} got {bytes(out[1]).hex()} expected {exp.hex()}", case)
    if list(args[0]) != pre:
        ctx.count("observed:merkle_root-mutated-its-argument")
    _shape_classes(ctx, n)
    ctx.case(("root", n, exp))


def _shape_classes(ctx, n):
    if n == 1:
        ctx.count("tree:single-leaf")
        return
    if n & (n - 1) == 0:
        ctx.count("tree:power-of-two")
    w, h, odd, upper = n, 0, False, False
    while w > 1:
        if w & 1:
            odd = True
            if h > 0:
                upper = True
        w = (w + 1) // 2
        h += 1
    if odd:
        ctx.count("tree:odd-level")
    if upper:
        ctx.count("tree:right-child-missing-above-leaves")


def post_parent_level(args, kwargs, pre, out):
    ctx = contracts.ctx()
    if not _is_hash_list(pre) or len(pre) < 2:
        return NotImplemented
    lvl = [bytes(h) for h in pre]
    if len(lvl) & 1:
        lvl.append(lvl[-1])
    exp = [ch.hash256(lvl[i] + lvl[i + 1]) for i in range(0, len(lvl), 2)]
    case = {"op": "root", "n": len(pre), "label": _state["label"], "leaves": None}
    if out[0] == "exc":
        _viol(ctx, "merkle-parent-level-raises", f"raised {out[1]!r} on a level of {len(pre)}", case)
        return
    if list(out[1]) != exp:
        _viol(ctx, "merkle-parent-level-differs", f"level of {len(pre)}: parent level differs from the reference", case)


def post_validate_merkle_root(args, kwargs, pre, out):
    ctx = contracts.ctx()
    b = args[0]
    if not _is_hash_list(b.tx_hashes) or not isinstance(b.merkle_root, (bytes, bytearray)):
        return NotImplemented
    exp = ch.merkle_root([bytes(h)[::-1] for h in b.tx_hashes])[::-1] == bytes(b.merkle_root)
    case = {"op": "validate-root", "n": len(b.tx_hashes), "label": _state["label"], "root_be": bytes(b.merkle_root)}
    if out[0] == "exc":
        _viol(ctx, "validate-merkle-root-raises", f"raised {out[1]!r}", case)
    elif bool(out[1]) != exp:
        _viol(ctx, "validate-merkle-root-differs", f"got {out[1]!r} expected {exp}", case)
    ctx.case(("validate-root", len(b.tx_hashes), bytes(b.merkle_root), exp))


# ---- contracts: proofs ---------------------------------------------------------------------
def snap_mb(self):
    hdr_root = getattr(self.header, "merkle_root", None)
    return (self.total, [bytes(h) for h in self.hashes], bytes(self.flags), bytes(hdr_root) if hdr_root is not None else None)


def _proof_case(pre):
    total, hashes, flags, root = pre
    c = {"op": "proof", "total": total, "flags": flags, "root_be": root, "label": _state["label"], "n": _state["n"],
         "match_idx": _state["midx"], "tamper": _state["tamper"]}
    c["hashes_be"] = hashes
    return c


def post_is_valid(args, kwargs, pre, out):
    ctx = contracts.ctx()
    self = args[0]
    total, hashes_be, flags, root_be = pre
    if root_be is None or not isinstance(total, int) or not all(len(h) == 32 for h in hashes_be):
        return NotImplemented
    tamper, honest, ids = _state["tamper"], _state["honest"], _state["ids"]
    case = _proof_case(pre)
    valid = out[0] == "ok" and out[1] is True
    self._vm_last_valid = valid
    self._vm_pre = pre
    if out[0] == "exc":
        ctx.rejected_by_exception += 1
    elif out[1] not in (True, False):
        _viol(ctx, "is-valid-returns-non-bool", f"returned {out[1]!r}", case)
    ex = ch.pmt_extract(total, [h[::-1] for h in hashes_be], ch.flag_bytes_to_bits(flags), prechecks=False) if total >= 0 else None
    proved = None
    if valid:
        tree = getattr(self, "merkle_tree", None)
        proved = [bytes(p) for p in getattr(tree, "proved_txs", [])]
        if ex is None or ex.root is None or ex.root[::-1] != root_be:
            _viol(ctx, 
                "is-valid-traversal-differs-from-spec",
                "library validates but the CPartialMerkleTree traversal does not reach the header's root (%s)" % (ex.reason if ex else "no traversal"),
                case,
            )
        elif proved != [m[::-1] for m in ex.matches]:
            _viol(ctx, "valid-proof-ids-differ-from-spec-traversal", "proved ids differ from the reference traversal's matches", case)
        if ex is not None and ex.reason is not None:
            ctx.count("observed:library-accepts-what-core-extractor-refuses:" + ex.reason)
    if ids is not None:  # the driver knows the block
        if tamper is None:
            ctx.count("proof:honest")
            if not valid:
                _viol(ctx, "honest-proof-rejected", f"honest proof (total={total}, {len(hashes_be)} hashes) -> {out[1]!r}", case)
            else:
                ctx.count("proof:honest-accepted")
                if proved != honest:
                    _viol(ctx, "honest-proof-wrong-ids", f"expected {len(honest)} matched ids in order, got {len(proved)}", case)
        else:
            ctx.count("tamper:" + tamper)
            if not valid:
                ctx.count("tamper:rejected")
            else:
                if tamper in ("hash-bit", "root-bit"):
                    mech = "altered-hash-still-validates" if tamper == "hash-bit" else "altered-root-still-validates"
                    _viol(ctx, mech, f"proof with one altered {tamper} still validates", case)
                foreign = [p for p in proved if p not in ids]
                if foreign:
                    _viol(ctx, "valid-proof-yields-foreign-id:" + tamper, f"{len(foreign)} yielded id(s) are not ids of the block, e.g. {foreign[0].hex()}", case)
                else:
                    ctx.count("tamper:still-valid-ids-subset")
    ctx.case(("proof", total, hashes_be if len(hashes_be) <= 64 else ch.hash256(b"".join(hashes_be)), flags, root_be))


def post_proved_txs(args, kwargs, pre, out):
    ctx = contracts.ctx()
    self = args[0]
    if getattr(self, "_vm_last_valid", None) is not True:
        ctx.count("observed:proved_txs-without-successful-validation")
        return NotImplemented
    total, hashes_be, flags, root_be = self._vm_pre
    case = _proof_case(self._vm_pre)
    if out[0] == "exc":
        _viol(ctx, "proved-txs-raises", f"raised {out[1]!r}", case)
        return
    ex = ch.pmt_extract(total, [h[::-1] for h in hashes_be], ch.flag_bytes_to_bits(flags), prechecks=False)
    got = [bytes(p) for p in out[1]]
    if ex.root is not None and got != [m[::-1] for m in ex.matches]:
        _viol(ctx, "valid-proof-ids-differ-from-spec-traversal", "proved_txs() differs from the reference traversal's matches", case)
    if _state["ids"] is not None:
        if _state["tamper"] is None and got != _state["honest"]:
            _viol(ctx, "honest-proof-wrong-ids", "proved_txs() is not the matched ids in order", case)
        foreign = [p for p in got if p not in _state["ids"]]
        if foreign:
            _viol(ctx, "valid-proof-yields-foreign-id:" + str(_state["tamper"]), f"proved_txs() yields a non-block id {foreign[0].hex()}", case)


# ---- contracts: header ----------------------------------------------------------------------
def post_hash(args, kwargs, pre, out):
    ctx = contracts.ctx()
    raw = _raw_of(args[0])
    if raw is None or _state["stub"] is not None:
        return NotImplemented
    case = {"op": "header", "raw": raw}
    if out[0] == "exc":
        _viol(ctx, "header-hash-raises", f"raised {out[1]!r}", case)
        return
    exp = ch.header_hash_be(raw)
    if out[1] != exp:
        _viol(ctx, "header-hash-differs", f"got {bytes(out[1]).hex()} expected {exp.hex()}", case)
    ctx.case(("hash", raw))


def post_serialize(args, kwargs, pre, out):
    ctx = contracts.ctx()
    raw = _raw_of(args[0])
    if raw is None:
        return NotImplemented
    if out[0] == "exc":
        _viol(ctx, "header-serialize-raises", f"raised {out[1]!r}", {"op": "header", "raw": raw})
    elif out[1] != raw:
        _viol(ctx, "header-serialize-differs", f"got {bytes(out[1]).hex()} expected {raw.hex()}", {"op": "header", "raw": raw})


def _judge_target(ctx, bits4, out, case, who):
    """Shared by bits_to_target and Block.target."""
    c = ch.compact_from_bits4(bits4)
    value, neg, ovf = ch.set_compact(c)
    if not _exp_in_quantifier(bits4):
        ctx.count("observed:bits-exponent-outside-1..32")
        return NotImplemented
    exp_byte, mant = bits4[3], c & 0xFFFFFF
    if exp_byte < 3:
        ctx.count("bits:exponent<3")
    if exp_byte == 32:
        ctx.count("bits:exponent=32")
    if mant & 0x800000:
        ctx.count("bits:sign-bit")
    if mant & 0x7FFFFF == 0:
        ctx.count("bits:zero-mantissa")
    if out[0] == "exc":
        if neg or ovf:
            ctx.rejected_by_exception += 1
            return None
        _viol(ctx, "bits-to-target:raises", f"{who}({bits4.hex()}) raised {out[1]!r}", case)
        return None
    got = out[1]
    if type(got) is not int:
        mech = "bits-to-target:float-for-exponent-below-3" if exp_byte < 3 else "bits-to-target:non-integer"
        _viol(ctx, mech, f"{who}({bits4.hex()}) = {got!r} ({type(got).__name__}), consensus SetCompact gives the integer {value}", case)
        return None
    if got != value:
        if mant & 0x800000:
            _viol(ctx, 
                "bits-to-target:sign-bit-taken-as-magnitude",
                f"{who}({bits4.hex()}) = {got:#x}; SetCompact: magnitude {value:#x}, negative={neg} (bit 0x00800000 is the sign)",
                case,
            )
        else:
            _viol(ctx, "bits-to-target:wrong-value", f"{who}({bits4.hex()}) = {got:#x} expected {value:#x}", case)
    return None


def post_bits_to_target(args, kwargs, pre, out):
    ctx = contracts.ctx()
    bits4 = args[0] if args else kwargs.get("bits")
    if not isinstance(bits4, (bytes, bytearray)) or len(bits4) != 4:
        return NotImplemented
    bits4 = bytes(bits4)
    r = _judge_target(ctx, bits4, out, {"op": "bits", "bits4": bits4}, "bits_to_target")
    if r is NotImplemented:
        return r
    ctx.case(("bits", bits4))


def post_target(args, kwargs, pre, out):
    ctx = contracts.ctx()
    bits4 = getattr(args[0], "bits", None)
    if not isinstance(bits4, (bytes, bytearray)) or len(bits4) != 4:
        return NotImplemented
    bits4 = bytes(bits4)
    r = _judge_target(ctx, bits4, out, {"op": "bits", "bits4": bits4}, "Block.target")
    if r is NotImplemented:
        return r


def post_target_to_bits(args, kwargs, pre, out):
    ctx = contracts.ctx()
    t = args[0] if args else kwargs.get("target")
    if type(t) is not int or not (0 <= t < 2**256):
        ctx.count("observed:target_to_bits-non-integer-or-out-of-range-argument")
        return NotImplemented
    exp = ch.bits4_from_compact(ch.get_compact(t))
    case = {"op": "target", "target": t}
    if t < 2**16:
        ctx.count("target:below-2^16")
    if t and (t >> (8 * ((t.bit_length() + 7) // 8 - 1))) & 0x80:
        ctx.count("target:high-bit-first-byte")
    mech = "target-to-bits:target-below-2^16" if t < 2**16 else "target-to-bits:wrong"
    if out[0] == "exc":
        _viol(ctx, mech, f"target_to_bits({t:#x}) raised {out[1]!r}; GetCompact gives {exp.hex()}", case)
    elif bytes(out[1]) != exp:
        _viol(ctx, mech, f"target_to_bits({t:#x}) = {bytes(out[1]).hex()} ({len(out[1])} bytes); GetCompact gives {exp.hex()}", case)
    ctx.case(("target", t))


def post_new_bits(args, kwargs, pre, out):
    ctx = contracts.ctx()
    prev = args[0] if args else kwargs.get("previous_bits")
    dt = args[1] if len(args) > 1 else kwargs.get("time_differential")
    if not isinstance(prev, (bytes, bytearray)) or len(prev) != 4 or type(dt) is not int:
        return NotImplemented
    prev = bytes(prev)
    c = ch.compact_from_bits4(prev)
    value, neg, ovf = ch.set_compact(c)
    if not _exp_in_quantifier(prev) or neg or ovf or value == 0 or value > ch.POW_LIMIT_MAINNET:
        ctx.count("observed:retarget-previous-target-outside-(0,2^224)")
        return NotImplemented
    exp_c = ch.next_work_required(c, dt)
    exp = ch.bits4_from_compact(exp_c)
    for name, v in (("dt=T/4-1", T // 4 - 1), ("dt=T/4", T // 4), ("dt=T/4+1", T // 4 + 1), ("dt=T", T), ("dt=4T-1", 4 * T - 1), ("dt=4T", 4 * T),
                    ("dt=4T+1", 4 * T + 1), ("dt=2^31", 2**31)):
        if dt == v:
            ctx.count("retarget:" + name)
    if dt <= 0:
        ctx.count("retarget:dt<=0")
    clamped = min(max(dt, T // 4), 4 * T)
    if value * clamped // T > ch.POW_LIMIT_MAINNET:
        ctx.count("retarget:pow-limit-cap")
    case = {"op": "retarget", "prev_bits4": prev, "dt": dt}
    new_target = min(value * clamped // T, ch.POW_LIMIT_MAINNET)
    def classify():
        # root cause: ask the two conversion functions directly (calls made by a monitor are not monitored)
        from buidl import helper

        b = outcome(helper.bits_to_target, prev)
        if b[0] != "ok" or type(b[1]) is not int or b[1] != value:
            return "bits-to-target:float-for-exponent-below-3" if prev[3] < 3 else "bits-to-target:wrong-value"
        t = outcome(helper.target_to_bits, new_target)
        if t[0] != "ok" or bytes(t[1]) != exp:
            return "target-to-bits:target-below-2^16" if new_target < 2**16 else "target-to-bits:wrong"
        if dt > 4 * T:
            return "retarget:upper-clamp"
        if dt < T // 4:
            return "retarget:lower-clamp"
        return "retarget:formula"

    if out[0] == "exc":
        _viol(ctx, classify(), f"calculate_new_bits({prev.hex()}, {dt}) raised {out[1]!r}; CalculateNextWorkRequired gives {exp.hex()}", case)
    elif bytes(out[1]) != exp:
        _viol(ctx, classify(), f"calculate_new_bits({prev.hex()}, {dt}) = {bytes(out[1]).hex()}; CalculateNextWorkRequired gives {exp.hex()}", case)
    ctx.case(("retarget", prev, dt))


def post_check_pow(args, kwargs, pre, out):
    ctx = contracts.ctx()
    raw = _raw_of(args[0])
    if raw is None:
        return NotImplemented
    bits4 = raw[72:76]
    if not _exp_in_quantifier(bits4):
        # the proof-of-work test is demanded "for every header": outside exponent 1..32 the compact value may overflow
        # 256 bits (CheckProofOfWork: fOverflow -> false); the target VALUE itself is only asserted inside 1..32
        ctx.count("pow:bits-exponent-outside-1..32")
    stub = _state["stub"]
    digest = stub if stub is not None else ch.hash256(raw)
    c = ch.compact_from_bits4(bits4)
    value, neg, ovf = ch.set_compact(c)
    exp = ch.check_pow(digest, c, None)
    proof = int.from_bytes(digest, "little")
    case = {"op": "pow", "raw": raw, "stub": stub}
    if stub is not None and not (neg or ovf):
        for name, v in (("target-1", value - 1), ("target", value), ("target+1", value + 1)):
            if proof == v:
                ctx.count("pow:stub-hash=" + name)
    if ovf:
        ctx.count("pow:overflowing-bits")
    if stub is None:
        ctx.count("pow:mined-valid" if exp else "pow:real-hash-above-target")
    if out[0] == "exc":
        if exp:
            _viol(ctx, "check-pow-raises-on-valid-header", f"raised {out[1]!r}", case)
        else:
            ctx.rejected_by_exception += 1
    else:
        got = out[1]
        if exp and not got:
            mech = "check-pow-rejects:hash-equal-to-target" if proof == value else "check-pow-rejects-valid-header"
            _viol(ctx, mech, f"bits {bits4.hex()} target {value:#x} hash(as LE number) {proof:#x}: consensus accepts (hash <= target), got {got!r}", case)
        if not exp and got:
            if c & 0x00800000:
                mech = "check-pow-accepts:bits-with-sign-bit"
            elif bits4[3] < 3:
                mech = "check-pow-accepts:fractional-target-for-exponent-below-3"
            elif value == 0:
                mech = "check-pow-accepts:zero-target"
            elif ovf:
                mech = "check-pow-accepts:overflowing-bits"
            else:
                mech = "check-pow-accepts:hash-above-target"
            _viol(ctx, mech, f"bits {bits4.hex()} (target {value:#x}, negative={neg}) hash {proof:#x}: consensus rejects, got {got!r}", case)
    ctx.case(("pow", raw, stub))


def snap_headers(self):
    return [_raw_of(h) for h in self.headers]


def post_headers_valid(args, kwargs, pre, out):
    ctx = contracts.ctx()
    if not pre or any(r is None for r in pre) or _state["stub"] is not None:
        return NotImplemented
    if not all(_exp_in_quantifier(r[72:76]) for r in pre):
        return NotImplemented
    exp = ch.chain_valid(pre, None)
    case = {"op": "chain", "headers": pre, "class": _state["chain_class"]}
    # which rule decides (for the mechanism key)
    pow_ok = all(ch.check_pow(ch.hash256(r), ch.compact_from_bits4(r[72:76]), None) for r in pre)
    link_ok = all(ch.header_parse(pre[i])["prev_be"] == ch.header_hash_be(pre[i - 1]) for i in range(1, len(pre)))
    if out[0] == "exc":
        if exp:
            _viol(ctx, "headers-is-valid-raises-on-valid-chain", f"raised {out[1]!r}", case)
        else:
            ctx.rejected_by_exception += 1
    else:
        got = bool(out[1])
        if exp and not got:
            _viol(ctx, "headers-is-valid-rejects-valid-chain", f"{len(pre)} linked headers with valid proof of work -> {out[1]!r}", case)
        if got and not exp:
            mech = "headers-is-valid-accepts:broken-link" if pow_ok and not link_ok else "headers-is-valid-accepts:failing-proof-of-work"
            _viol(ctx, mech, f"{len(pre)} headers (pow_ok={pow_ok}, link_ok={link_ok}) -> {out[1]!r}", case)
    if len(pre) == 1:
        ctx.count("chain:single-header")
    ctx.count("chain:valid" if exp else ("chain:broken-link" if pow_ok else "chain:broken-pow"))
    ctx.case(("chain", pre))


def install():
    import buidl  # noqa: F401  (loads every module that aliases the helper functions)
    from buidl import block, helper, merkleblock, network

    contracts.install(helper, "merkle_parent_level", post_parent_level, snap=lambda hashes: list(hashes))
    contracts.install(helper, "merkle_root", post_merkle_root, snap=lambda hashes: list(hashes))
    contracts.install(helper, "bits_to_target", post_bits_to_target)
    contracts.install(helper, "target_to_bits", post_target_to_bits)
    contracts.install(helper, "calculate_new_bits", post_new_bits)
    contracts.install(merkleblock.MerkleBlock, "is_valid", post_is_valid, snap=snap_mb)
    contracts.install(merkleblock.MerkleBlock, "proved_txs", post_proved_txs)
    contracts.install(block.Block, "hash", post_hash)
    contracts.install(block.Block, "serialize", post_serialize)
    contracts.install(block.Block, "target", post_target)
    contracts.install(block.Block, "check_pow", post_check_pow)
    contracts.install(block.Block, "validate_merkle_root", post_validate_merkle_root)
    contracts.install(network.HeadersMessage, "is_valid", post_headers_valid, snap=snap_headers)


def limit_memory():
    try:
        import resource

        lim = 512 * 1024**2
        soft, hard = resource.getrlimit(resource.RLIMIT_AS)
        if hard != resource.RLIM_INFINITY:
            lim = min(lim, hard)
        resource.setrlimit(resource.RLIMIT_AS, (lim, hard))
    except Exception:  # noqa: BLE001
        pass


# ---- workload: roots -------------------------------------------------------------------------
ROOT_SIZES_SAMPLED = [301, 500, 511, 512, 513, 777, 1000, 1023, 1024, 1025, 1500, 2047, 2048, 2049, 3000, 3519, 4095, 4096, 4097, 4999, 5000]


def wl_roots(ctx, rng, idx, n):
    from buidl import helper
    from buidl.block import Block

    sizes = [s for s in range(1, 301) if s % n == idx]
    sizes += [s for i, s in enumerate(ROOT_SIZES_SAMPLED) if i % n == idx]
    extra = {"quick": 2, "thorough": 40}[ctx.tier]
    sizes += [rng.randrange(301, 5001) for _ in range(extra)]
    for s in sizes:
        label = rng.getrandbits(64).to_bytes(8, "big")
        ids = block_ids(label, s)
        _state.update(label=label, n=s)
        o = outcome(helper.merkle_root, list(ids))
        # the same through Block.validate_merkle_root (tx_hashes are in displayed order there)
        root = ch.merkle_root(ids)
        hdr = Block(1, b"\x00" * 32, root[::-1], 0, b"\xff\xff\x00\x1d", b"\x00" * 4, tx_hashes=[i[::-1] for i in ids])
        outcome(hdr.validate_merkle_root)
        if s > 1:
            wrong = Block(1, b"\x00" * 32, ids[0][::-1], 0, b"\xff\xff\x00\x1d", b"\x00" * 4, tx_hashes=[i[::-1] for i in ids])
            outcome(wrong.validate_merkle_root)
        if o[0] == "ok":
            ctx.sample({"op": "root", "n": s, "label": label, "root": o[1]})
    _state.update(label=None, n=None)


# ---- workload: proofs --------------------------------------------------------------------------
def random_header(rng, root_internal):
    return ch.header_serialize(
        rng.getrandbits(32), rng.getrandbits(256).to_bytes(32, "big"), root_internal[::-1], rng.getrandbits(32),
        bytes.fromhex("ffff001d"), rng.getrandbits(32).to_bytes(4, "big"),
    )


def run_proof(ctx, hdr, total, hashes, flags, ids_be, honest_be, tamper):
    """hashes in internal order (wire order).  Feeds the real MerkleBlock.parse -> is_valid -> proved_txs."""
    from buidl.merkleblock import MerkleBlock

    raw = ch.merkleblock_serialize(hdr, total & 0xFFFFFFFF, hashes, flags)
    _state.update(ids=ids_be, honest=honest_be, tamper=tamper)
    try:
        o = outcome(MerkleBlock.parse, BytesIO(raw))
        if o[0] != "ok":
            if tamper is None:
                _viol(ctx, "honest-proof-parse-raises", f"MerkleBlock.parse raised {o[1]}", {"op": "proof-raw", "raw": raw})
            return None
        mb = o[1]
        v = outcome(mb.is_valid)
        if v == ("ok", True):
            outcome(mb.proved_txs)
        # the same object validated again: the verdict (and the ids) must not depend on earlier validations
        # (each call is decided by the contracts; the two verdicts are also compared with each other)
        if tamper is None or (hash(raw) & 7) == 0:
            ctx.count("reuse:same-object-validated-twice")
            v2 = outcome(mb.is_valid)
            ctx.monitor("proof-revalidation")
            if (v2[0], v2[1] if v2[0] == "ok" else None) != (v[0], v[1] if v[0] == "ok" else None):
                _viol(ctx, "proof-verdict-depends-on-earlier-validation", f"first {v} second {v2}", {"op": "proof-raw", "raw": raw})
            if v2 == ("ok", True):
                outcome(mb.proved_txs)
            # edit history: the validated object's proof data altered in place, validated again - the verdict has
            # to follow the data as it is now (decided by the is_valid contract, which snapshots the fields)
            if tamper is None and v == ("ok", True) and mb.hashes:
                k = hash(raw) % len(mb.hashes)
                old = mb.hashes[k]
                mb.hashes[k] = bytes([old[0] ^ 1]) + old[1:]
                _state.update(tamper="hash-bit")
                v3 = outcome(mb.is_valid)
                ctx.count("reuse:validated-object-edited-then-validated")
                ctx.monitor("proof-edit-history")
                if v3 == ("ok", True):
                    _viol(ctx, "altered-proof-validates-on-reused-object", "a hash of an already validated MerkleBlock object was changed in place and is_valid() still returned True", {"op": "proof-raw", "raw": raw})
                mb.hashes[k] = old
                _state.update(tamper=tamper)
        return v
    finally:
        _state.update(ids=None, honest=None, tamper=None)


def tampers_for(rng, hdr, total, hashes, flags, budget):
    """Yield (class, hdr, total, hashes, flags).  `budget` = dict of per-class limits."""
    nh = len(hashes)
    # hash bits
    hidx = list(range(nh)) if nh <= budget["hash_idx"] else sorted(rng.sample(range(nh), budget["hash_idx"]))
    for i in hidx:
        bits = range(256) if budget["hash_bits"] >= 256 else sorted({0, 255} | {rng.randrange(256) for _ in range(budget["hash_bits"])})
        for b in bits:
            h = bytearray(hashes[i])
            h[b // 8] ^= 1 << (b % 8)
            yield "hash-bit", hdr, total, hashes[:i] + [bytes(h)] + hashes[i + 1 :], flags
    # root bits (bytes 36..67 of the header)
    bits = range(256) if budget["root_bits"] >= 256 else sorted({0, 255} | {rng.randrange(256) for _ in range(budget["root_bits"])})
    for b in bits:
        h = bytearray(hdr)
        h[36 + b // 8] ^= 1 << (b % 8)
        yield "root-bit", bytes(h), total, hashes, flags
    # flag bits (every bit incl. padding when the proof is small)
    nb = len(flags) * 8
    fidx = range(nb) if nb <= budget["flag_bits"] else sorted(rng.sample(range(nb), budget["flag_bits"]))
    for b in fidx:
        f = bytearray(flags)
        f[b // 8] ^= 1 << (b % 8)
        yield "flag-bit", hdr, total, hashes, bytes(f)
    # count bits
    for b in range(budget["count_bits"]):
        yield "count-bit", hdr, total ^ (1 << b), hashes, flags
    # dropped / extra / swapped hashes
    for i in hidx:
        yield "drop-hash", hdr, total, hashes[:i] + hashes[i + 1 :], flags
        yield "extra-hash", hdr, total, hashes[: i + 1] + [hashes[i]] + hashes[i + 1 :], flags
        if i + 1 < nh and hashes[i] != hashes[i + 1]:
            yield "swap-hashes", hdr, total, hashes[:i] + [hashes[i + 1], hashes[i]] + hashes[i + 2 :], flags
    yield "extra-hash", hdr, total, hashes + [rng.getrandbits(256).to_bytes(32, "big")], flags
    yield "extra-hash", hdr, total, [rng.getrandbits(256).to_bytes(32, "big")] + hashes, flags
    yield "extra-hash", hdr, total, hashes, flags + b"\x00"  # an extra, empty flag byte


def one_tree(ctx, rng, label, n, midx, budget):
    ids = block_ids(label, n)
    ids_be = frozenset(i[::-1] for i in ids)
    mset = set(midx)
    matches = [i in mset for i in range(n)]
    total, hashes, bits = ch.pmt_build(ids, matches)
    flags = ch.bits_to_flag_bytes(bits)
    root = ch.merkle_root(ids)
    hdr = random_header(rng, root)
    honest_be = [ids[i][::-1] for i in sorted(mset)]
    _state.update(label=label, n=n, midx=sorted(mset) if len(mset) <= 64 else None)
    if not mset:
        ctx.count("proof:none-matched")
    if len(mset) == n:
        ctx.count("proof:all-matched")
    if len(mset) == 1:
        ctx.count("proof:single-match")
    if n & 1 and n > 1 and (n - 1) in mset:
        ctx.count("proof:last-leaf-of-odd-level-matched")
    _shape_classes(ctx, n)
    v = run_proof(ctx, hdr, total, hashes, flags, ids_be, honest_be, None)
    ctx.sample({"op": "proof", "n": n, "label": label, "matched": sorted(mset)[:16], "hashes": len(hashes), "flags": flags[:16], "library": v})
    for cls, h2, t2, hs2, f2 in tampers_for(rng, hdr, total, hashes, flags, budget):
        if (h2, t2, hs2, f2) == (hdr, total, hashes, flags):
            continue
        run_proof(ctx, h2, t2, hs2, f2, ids_be, honest_be, cls)
    # outside the quantifier, recorded only: a smaller count that presents inner nodes as leaves
    if (ctx.tier == "thorough" and n >= 3 and not mset) or (n in (4, 7) and len(mset) == n):
        observe_inner_node_forgery(ctx, rng, ids)
    _state.update(label=None, n=None, midx=None)


def observe_inner_node_forgery(ctx, rng, ids):
    from buidl.merkleblock import MerkleBlock

    lvl = list(ids)
    if len(lvl) & 1:
        lvl.append(lvl[-1])
    parents = [ch.hash256(lvl[i] + lvl[i + 1]) for i in range(0, len(lvl), 2)]
    if len(parents) < 2:
        return
    total, hashes, bits = ch.pmt_build(parents, [True] * len(parents))
    raw = ch.merkleblock_serialize(random_header(rng, ch.merkle_root(ids)), total, hashes, ch.bits_to_flag_bytes(bits))
    with contracts.suspended():
        o = outcome(MerkleBlock.parse, BytesIO(raw))
        if o[0] == "ok":
            v = outcome(o[1].is_valid)
            ctx.count("observed:inner-nodes-presented-as-leaves-" + ("accepted(core-accepts-too)" if v == ("ok", True) else "rejected"))


SAMPLED_TREE_SIZES = [11, 12, 13, 15, 16, 17, 31, 32, 33, 63, 64, 65, 100, 127, 128, 129, 255, 256, 257, 500, 1000, 1023, 1024, 1025, 2047, 2049, 3519, 4097, 4999, 5000]


def wl_proofs(ctx, rng, idx, n):
    quick = ctx.tier == "quick"
    small_budget = (
        {"hash_idx": 16, "hash_bits": 3, "root_bits": 4, "flag_bits": 64, "count_bits": 16}
        if quick
        else {"hash_idx": 16, "hash_bits": 256, "root_bits": 256, "flag_bits": 64, "count_bits": 20}
    )
    # proofs whose transaction count is altered in every one of its 32 bits (expensive: the library allocates the tree)
    first = 200 + 110 * idx
    first += (idx - first) % n
    if quick:
        full_count = {first} if idx % 4 == 0 else set()
    else:
        full_count = {first, first + 16 * n, first - 8 * n, 14 + idx if idx < 2 else first + 4 * n}
    k = 0
    for leaves in range(1, 11):
        for mask in range(1 << leaves):
            if k % n == idx:
                if ctx.out_of_time():
                    return
                label = struct.pack(">BH", leaves, mask) + rng.getrandbits(40).to_bytes(5, "big")
                b = dict(small_budget)
                if k in full_count:
                    b["count_bits"] = 32  # includes counts whose tree cannot be allocated (MemoryError = rejection)
                one_tree(ctx, rng, label, leaves, [i for i in range(leaves) if mask >> i & 1], b)
            k += 1
    ctx.exhaustive.append("honest BIP37 proofs of all trees with 1..10 leaves x all 2^n match subsets (2046 proofs, split over the shards)")
    big_budget = (
        {"hash_idx": 6, "hash_bits": 2, "root_bits": 2, "flag_bits": 24, "count_bits": 16}
        if quick
        else {"hash_idx": 16, "hash_bits": 8, "root_bits": 16, "flag_bits": 96, "count_bits": 18}
    )
    sizes = [s for i, s in enumerate(SAMPLED_TREE_SIZES) if i % n == idx]
    sizes += [rng.randrange(11, 5001) for _ in range(1 if quick else 6)]
    for s in sizes:
        patterns = [[], [0], [s - 1], [rng.randrange(s)], sorted(rng.sample(range(s), min(s, 5)))]
        patterns.append([i for i in range(s) if rng.random() < 0.1])
        if s <= 300 or not quick:
            patterns.append(list(range(s)))
            patterns.append([i for i in range(s) if rng.random() < 0.5])
        if not quick:
            patterns.append([i for i in range(s) if i % 2 == 0])
            patterns.append(list(range(s // 2, s)))
        for midx in patterns:
            if ctx.out_of_time():
                return
            label = rng.getrandbits(64).to_bytes(8, "big")
            one_tree(ctx, rng, label, s, midx, big_budget)


# ---- workload: bits / targets / retarget ------------------------------------------------------------
MANTISSAS = [0, 1, 0x7F, 0x80, 0xFF, 0x100, 0x7FFF, 0x8000, 0xFFFF, 0x10000, 0x123456, 0x7FFFFF, 0x800000, 0x800001, 0x80FFFF, 0x923456, 0xFFFFFF]


def stub_hash(digest):
    import buidl.block as blk

    class _Stub:
        def __enter__(self_inner):
            self_inner.old = blk.hash256
            blk.hash256 = lambda s: digest
            _state["stub"] = digest

        def __exit__(self_inner, *a):
            blk.hash256 = self_inner.old
            _state["stub"] = None
            return False

    return _Stub()


def header_obj(raw):
    from buidl.block import Block

    with contracts.suspended():
        return Block.parse_header(BytesIO(raw))


def drive_bits(ctx, rng, bits4):
    from buidl import helper

    outcome(helper.bits_to_target, bits4)
    raw = ch.header_serialize(rng.getrandbits(32), rng.getrandbits(256).to_bytes(32, "big"), rng.getrandbits(256).to_bytes(32, "big"),
                              rng.getrandbits(32), bits4, rng.getrandbits(32).to_bytes(4, "big"))
    h = header_obj(raw)
    outcome(h.target)
    outcome(h.check_pow)  # real digest
    value, neg, ovf = ch.set_compact(ch.compact_from_bits4(bits4))
    placed = [value - 1, value, value + 1, 0, 1, value // 2]
    for p in placed:
        if 0 <= p < 2**256:
            with stub_hash(p.to_bytes(32, "little")):
                outcome(h.check_pow)
    if not neg and not ovf and 0 <= value < 2**256:
        outcome(helper.target_to_bits, value)


def wl_bits(ctx, rng, idx, n):
    from buidl import helper

    cat = [(e, m) for e in list(range(0, 36)) + [0xFF] for m in MANTISSAS]
    for k, (e, m) in enumerate(cat):
        if k % n == idx:
            drive_bits(ctx, rng, struct.pack("<I", (e << 24) | m))
    for _ in range({"quick": 150, "thorough": 6000}[ctx.tier]):
        e = rng.choice([1, 2, 3, 4, 5, 0x17, 0x18, 0x1B, 0x1C, 0x1D, 0x1E, 0x1F, 0x20]) if rng.random() < 0.5 else rng.randrange(1, 33)
        m = rng.getrandbits(24) if rng.random() < 0.7 else rng.getrandbits(23)
        drive_bits(ctx, rng, struct.pack("<I", (e << 24) | m))
    # targets
    targets = [0, 1, 0x7F, 0x80, 0xFF, 0x100, 0x1234, 0x7FFF, 0x8000, 0xFFFF, 0x10000, 0x7FFFFF, 0x800000, 0xFFFFFF, 0x1000000,
               0xFFFF * 256**26, ch.POW_LIMIT_MAINNET, 2**255, 2**256 - 1, 0x13CE9000000000000000000000000000000000000000000]
    for ln in range(1, 33):
        for top in (0x01, 0x7F, 0x80, 0xFF):
            targets.append((top << (8 * (ln - 1))) | (rng.getrandbits(8 * (ln - 1)) if ln > 1 else 0))
    targets += [rng.getrandbits(rng.randrange(1, 257)) for _ in range({"quick": 60, "thorough": 3000}[ctx.tier])]
    for k, t in enumerate(targets):
        if k % n == idx or k >= len(targets) - 60 or t < 0x10000:
            o = outcome(helper.target_to_bits, t)
            if o[0] == "ok" and isinstance(o[1], (bytes, bytearray)) and len(o[1]) == 4:
                outcome(helper.bits_to_target, bytes(o[1]))


CORE_RETARGET = [
    (0x1D00FFFF, 1262152739 - 1261130161, 0x1D00D86A),
    (0x1D00FFFF, 1233061996 - 1231006505, 0x1D00FFFF),
    (0x1C05A3F4, 1279297671 - 1279008237, 0x1C0168FD),
    (0x1C387F6F, 1269211443 - 1263163443, 0x1D00E1FD),
]
PREV_BITS = [0x1D00FFFF, 0x1C05A3F4, 0x1C387F6F, 0x1B0404CB, 0x1A05DB8B, 0x18013CE9, 0x1801D854, 0x170ED0EB, 0x1D00D86A, 0x1C7FFFFF, 0x1D008000,
             0x04008000, 0x03123456, 0x03000100, 0x0300FFFF, 0x02008000, 0x01120000, 0x05009234]
DTS = [-(2**31), -1, 0, 1, T // 4 - 1, T // 4, T // 4 + 1, T // 2, T - 1, T, T + 1, 2 * T, 4 * T - 1, 4 * T, 4 * T + 1, 8 * T, 2**31 - 1, 2**31, 2**32]


def wl_retarget(ctx, rng, idx, n):
    from buidl import helper

    for c, dt, want in CORE_RETARGET:
        ctx.count("retarget:core-vectors")
        o = outcome(helper.calculate_new_bits, ch.bits4_from_compact(c), dt)
        if o[0] == "ok" and bytes(o[1]) != ch.bits4_from_compact(want):
            pass  # the contract has recorded it
    k = 0
    for c in PREV_BITS:
        for dt in DTS:
            if k % n == idx:
                outcome(helper.calculate_new_bits, ch.bits4_from_compact(c), dt)
            k += 1
    for _ in range({"quick": 200, "thorough": 20000}[ctx.tier]):
        e = rng.randrange(3, 0x1E)
        m = rng.randrange(0x008000, 0x800000) if e > 3 else rng.randrange(1, 0x800000)
        c = (e << 24) | m
        if ch.set_compact(c)[0] > ch.POW_LIMIT_MAINNET:
            continue
        r = rng.random()
        if r < 0.3:
            dt = rng.choice(DTS) + rng.randrange(-2, 3)
        elif r < 0.8:
            dt = rng.randrange(T // 8, 5 * T)
        else:
            dt = rng.randrange(-(2**33), 2**33)
        outcome(helper.calculate_new_bits, ch.bits4_from_compact(c), dt)


# ---- workload: headers, mined proof of work, chains ---------------------------------------------------
EASY_BITS = [0x207FFFFF, 0x2000FFFF, 0x1F7FFFFF, 0x2001FFFF, 0x1F00FFFF]


def mine(rng, version, prev_be, root_be, ts, bits4, want=True, limit=1 << 18):
    """Find a nonce whose header passes (or fails) the reference proof-of-work test."""
    c = ch.compact_from_bits4(bits4)
    start = rng.getrandbits(32)
    for k in range(limit):
        nonce = struct.pack("<I", (start + k) & 0xFFFFFFFF)
        raw = ch.header_serialize(version, prev_be, root_be, ts, bits4, nonce)
        if ch.check_pow(ch.hash256(raw), c, None) == want:
            return raw
    return None


def wl_headers(ctx, rng, idx, n):
    from buidl.block import Block
    from buidl.network import HeadersMessage

    from ref import p2p

    # random 80-byte strings: codec + hash (+ pow when the exponent byte happens to be in range)
    for _ in range({"quick": 300, "thorough": 20000}[ctx.tier]):
        raw = bytearray(rng.getrandbits(640).to_bytes(80, "big"))
        if rng.random() < 0.5:
            raw[75] = rng.choice([0x1D, 0x1E, 0x1F, 0x20, 0x20, 0x21, 0x1C, 3, 2, 1])
            if rng.random() < 0.5:
                raw[74] &= 0x7F
        raw = bytes(raw)
        o = outcome(Block.parse_header, BytesIO(raw))
        if o[0] != "ok":
            _viol(ctx, "parse-header-raises", f"raised {o[1]}", {"op": "header", "raw": raw})
            continue
        h = o[1]
        exp = ch.header_parse(raw)
        got = (h.version, h.prev_block, h.merkle_root, h.timestamp, h.bits, h.nonce)
        if got != (exp["version"], exp["prev_be"], exp["root_be"], exp["timestamp"], exp["bits4"], exp["nonce4"]):
            _viol(ctx, "parse-header-differs", "parsed fields differ from the reference layout", {"op": "header", "raw": raw})
        ctx.monitor("parse_header-vs-reference")
        outcome(h.serialize)
        outcome(h.hash)
        outcome(h.id)
        outcome(h.check_pow)
    # known real headers
    for hx in (ch.GENESIS_HEADER.hex(), ch._HDR_A, ch._HDR_POW_OK, ch._HDR_CHAIN[0], ch._HDR_CHAIN[1]):
        h = header_obj(bytes.fromhex(hx))
        outcome(h.hash)
        outcome(h.check_pow)
        outcome(h.target)
    # chains
    nchains = {"quick": 24, "thorough": 700}[ctx.tier]
    for ci in range(nchains):
        if ctx.out_of_time():
            return
        length = 1 if ci % 8 == 0 else rng.randrange(2, 7)
        raws = []
        prev = rng.getrandbits(256).to_bytes(32, "big")
        for _ in range(length):
            bits4 = ch.bits4_from_compact(rng.choice(EASY_BITS if (ctx.tier == "thorough" and ci % 50 == 7) else EASY_BITS[:4]))
            raw = mine(rng, rng.getrandbits(32), prev, rng.getrandbits(256).to_bytes(32, "big"), rng.getrandbits(32), bits4)
            if raw is None:
                break  # no nonce found within the search limit (hard target): skip this chain
            raws.append(raw)
            prev = ch.header_hash_be(raw)
        if len(raws) != length:
            ctx.count("observed:chain-skipped-no-nonce-found")
            continue
        variants = [("valid", raws)]
        j = rng.randrange(length)
        f = ch.header_parse(raws[j])
        # failing proof of work at position j (same linkage for j's successor is lost too, so rebuild the tail)
        bad = mine(rng, f["version"], f["prev_be"], f["root_be"], f["timestamp"], bytes.fromhex("ffff001d"), want=False)
        tail = list(raws[:j]) + [bad]
        prev = ch.header_hash_be(bad) if bad is not None else None
        for r in raws[j + 1 :]:
            g = ch.header_parse(r)
            nr = mine(rng, g["version"], prev, g["root_be"], g["timestamp"], g["bits4"]) if prev is not None else None
            tail.append(nr)
            prev = ch.header_hash_be(nr) if nr is not None else None
        variants.append(("broken-pow", tail))
        if length > 1:
            j = rng.randrange(1, length)
            g = ch.header_parse(raws[j])
            wrong_prev = bytearray(g["prev_be"])
            b = rng.randrange(256)
            wrong_prev[b // 8] ^= 1 << (b % 8)
            nr = mine(rng, g["version"], bytes(wrong_prev), g["root_be"], g["timestamp"], g["bits4"])
            variants.append(("broken-link", raws[:j] + [nr] + raws[j + 1 :]))
            variants.append(("broken-link", list(reversed(raws))))
            variants.append(("broken-link", raws[:1] + raws[:1] + raws[1:]))
        for cls, hs in variants:
            if any(r is None for r in hs):
                continue
            _state["chain_class"] = cls
            payload = p2p.headers_payload(hs)
            o = outcome(HeadersMessage.parse, BytesIO(payload))
            if o[0] != "ok":
                _viol(ctx, "headers-parse-raises", f"raised {o[1]}", {"op": "chain", "headers": hs, "class": cls})
                continue
            v = outcome(o[1].is_valid)
            if ci < 2:
                ctx.sample({"op": "chain", "class": cls, "headers": [r.hex() for r in hs][:3], "library": v})
            for hobj in o[1].headers[:2]:
                outcome(hobj.hash)
        _state["chain_class"] = None


# ---- shards ---------------------------------------------------------------------------------------
def shards(tier, seed):
    n = 16
    return [{"name": "chain", "idx": i, "n": n, "budget_s": 900 if tier == "quick" else 5400} for i in range(n)]


def run_shard(desc, ctx):
    ch.selfcheck()
    limit_memory()
    install()
    idx, n = desc["idx"], desc["n"]
    wl_roots(ctx, ctx.rng("roots"), idx, n)
    wl_bits(ctx, ctx.rng("bits"), idx, n)
    wl_retarget(ctx, ctx.rng("retarget"), idx, n)
    wl_headers(ctx, ctx.rng("headers"), idx, n)
    wl_proofs(ctx, ctx.rng("proofs"), idx, n)


# ---- replay ---------------------------------------------------------------------------------------
def replay(case, ctx):
    from buidl import helper
    from buidl.block import Block
    from buidl.merkleblock import MerkleBlock
    from buidl.network import HeadersMessage

    from ref import p2p

    ch.selfcheck()
    limit_memory()
    install()
    op = case.get("op")
    if op == "root":
        ids = block_ids(case["label"], case["n"]) if case.get("label") is not None else list(case["leaves"])
        _state.update(label=case.get("label"), n=case["n"])
        outcome(helper.merkle_root, list(ids))
    elif op == "validate-root":
        ids = block_ids(case["label"], case["n"])
        outcome(Block(1, b"\x00" * 32, case["root_be"], 0, b"\xff\xff\x00\x1d", b"\x00" * 4, tx_hashes=[i[::-1] for i in ids]).validate_merkle_root)
    elif op == "proof":
        ids_be = honest = None
        if case.get("label") is not None and case.get("n"):
            ids = block_ids(case["label"], case["n"])
            ids_be = frozenset(i[::-1] for i in ids)
            if case.get("match_idx") is not None:
                honest = [ids[i][::-1] for i in case["match_idx"]]
        hdr = Block(1, b"\x00" * 32, case["root_be"], 0, b"\xff\xff\x00\x1d", b"\x00" * 4)
        mb = MerkleBlock(hdr, case["total"], list(case["hashes_be"]), case["flags"])
        tamper = case.get("tamper")
        if tamper is None and honest is None:
            ids_be = None
        _state.update(ids=ids_be, honest=honest, tamper=tamper, label=case.get("label"), n=case.get("n"), midx=case.get("match_idx"))
        v = outcome(mb.is_valid)
        if v == ("ok", True):
            outcome(mb.proved_txs)
    elif op == "proof-raw":
        outcome(MerkleBlock.parse, BytesIO(case["raw"]))
    elif op == "header":
        o = outcome(Block.parse_header, BytesIO(case["raw"]))
        if o[0] == "ok":
            for f in (o[1].serialize, o[1].hash, o[1].target, o[1].check_pow):
                outcome(f)
    elif op == "bits":
        outcome(helper.bits_to_target, case["bits4"])
        h = header_obj(ch.header_serialize(1, b"\x00" * 32, b"\x00" * 32, 0, case["bits4"], b"\x00" * 4))
        outcome(h.target)
    elif op == "target":
        outcome(helper.target_to_bits, case["target"])
    elif op == "retarget":
        outcome(helper.calculate_new_bits, case["prev_bits4"], case["dt"])
    elif op == "pow":
        h = header_obj(case["raw"])
        if case.get("stub") is not None:
            with stub_hash(case["stub"]):
                outcome(h.check_pow)
        else:
            outcome(h.check_pow)
    elif op == "chain":
        _state["chain_class"] = case.get("class")
        o = outcome(HeadersMessage.parse, BytesIO(p2p.headers_payload(list(case["headers"]))))
        if o[0] == "ok":
            outcome(o[1].is_valid)
