"""C15 - SLIP39 shares: any k recover, fewer never do, splits cannot be mixed, corruption is detected.

Monitors (contracts on the real functions, see vmon.contracts), each comparing with the reference
SLIP-0039 written from the specification (ref/slip39.py: shift-and-xor GF(256), RS1024 constants
derived from the code's definition, hashlib PBKDF2):
  rs1024_polymod / rs1024_verify_checksum / rs1024_create_checksum
  Share.parse            accepted <=> the reference decodes the text; all header fields and the value equal
  Share.mnemonic         text == reference encoding of the object's fields
  ShareSet.encrypt / ShareSet.decrypt     == reference 4-round Feistel
  ShareSet.interpolate   == Lagrange interpolation over GF(256)
  ShareSet.split_secret  the reference recovers the secret (digest verified) from k-subsets and from all shares
  ShareSet.recover_secret accepted <=> reference digest check passes, same value
  ShareSet.generate_shares  every share decodes, headers consistent, the *reference* recovers the entropy from subsets
  ShareSet.recover_mnemonic accepted <=> the reference accepts the set; mnemonic == reference result
Boundary monitors: GF(256) tables (all 65 536 products, all 255 inverses, unchanged at the end),
"positive sets return exactly the original mnemonic", "corrupted shares are not accepted",
decrypt(encrypt(x)) == x, Share text round trips.
Two-way differential: library shares -> reference recovery (in the generate_shares contract) and
reference shares -> library recovery (driver + recover_mnemonic contract).
Library entropy (secrets.randbits in buidl.shamir / buidl.mnemonic) is replaced by a recorded stream
drawn from ctx.rng; the stub can force the 15-bit identifier so that two splits collide on it.
"""
import hashlib
import itertools
import random

from ref import bip39 as ref39
from ref import slip39 as ref
from vmon import contracts
from vmon.core import outcome

PROPERTY_ID = "C15"
RULE = (
    "cases = (mnemonic, k, n, passphrase, exponent, recorded random stream) through generate_shares; (share set, passphrase) "
    "through recover_mnemonic [subsets of size k-1, k, k+1.., n of library shares and of reference shares, mixed sets of two "
    "splits (different identifiers, forced identical identifiers, relabelled headers), sets containing a corrupted share, "
    "duplicates, the official vectors]; share texts through Share.parse [all single-word substitutions at every position of "
    "sampled shares, sampled 2- and 3-word substitutions, synthetic headers]; direct calls of split_secret / recover_secret / "
    "interpolate / encrypt / decrypt / rs1024_*; distinct = distinct concrete inputs by hash; non-trivial = the reference "
    "decided the same input (accept/reject and value) and the contract compared it with what the real function did"
)
ASSUMPTIONS = [
    "a wrong passphrase is supposed to yield a different mnemonic (SLIP39 has no passphrase check): only compared with the reference's result for the same passphrase",
    "k = 1: the library returns a single share whatever n (the specification would give n copies); recorded as an observation, the statement is about subsets of the shares produced",
    "a mixed set of two splits with the same identifier and parameters is separated only by the 4-byte digest (false pass probability 2^-32 per set, not observable)",
    "ShareSet.interpolate evaluated *at one of its own nodes* is not reachable from split/recover (nodes are 0..15, targets 254/255 or unused indices); library and reference are compared there as an observation only",
    "shares with the extendable-backup flag / iteration exponents >= 16 and shares whose length has more than 8 padding bits are outside the quantifier (observations only)",
    "the 1024 words are read from the repository file as data with a pinned fingerprint and the SLIP39 structural invariants",
]

PASS_CLASSES = ("empty", "ascii", "non-ascii", "long")

QUICK_PAIRS = [
    (1, 1), (1, 2), (1, 16), (1, 8), (2, 2), (2, 3), (2, 9), (2, 16), (3, 3), (5, 5), (9, 9), (16, 16),
    (3, 16), (8, 16), (15, 16), (3, 5), (4, 7), (7, 9), (6, 11), (10, 12), (13, 15), (12, 16), (5, 8), (3, 4),
    (4, 4), (2, 5), (6, 6), (11, 14), (14, 15), (9, 16), (7, 13), (5, 12), (8, 8), (10, 10), (3, 10), (4, 16),
    (2, 7), (6, 16), (12, 13), (15, 15), (11, 11), (13, 16), (9, 10), (7, 7), (14, 14), (4, 9), (5, 6), (8, 12),
]  # fmt: skip
ALL_PAIRS = [(k, n) for n in range(1, 17) for k in range(1, n + 1)]

MONITORS = [
    "rs1024_polymod", "rs1024_verify_checksum", "rs1024_create_checksum", "Share.parse", "Share.mnemonic",
    "ShareSet.generate_shares", "ShareSet.recover_mnemonic", "ShareSet.split_secret", "ShareSet.recover_secret",
    "ShareSet.interpolate", "ShareSet.encrypt", "ShareSet.decrypt",
]  # fmt: skip

GATES = {
    "contracts-ran": MONITORS,
    "gf-tables": ["gf-tables", "tables:products", "tables:inverses", "tables:unchanged"],
    "secret-sizes": ["secret:16", "secret:32"],
    "object-reuse": ["reuse:shareset-object-asked-twice"],
    "exponents": ["exp:0", "exp:1", "exp:2"],
    "passphrases": ["pass:" + p for p in PASS_CLASSES],
    "kn-regions": ["kn:k=1,n=1", "kn:k=1,n>1", "kn:k=2", "kn:k=n", "kn:2<k<n", "kn:n=16", "kn:k=16"],
    "kn-pairs": {"quick": ["pair:%d-%d" % p for p in QUICK_PAIRS], "thorough": ["pair:%d-%d" % p for p in ALL_PAIRS]},
    "subset-sizes": ["subset:k", "subset:k+1", "subset:n", "subset:between", "subset:k-1", "subset:single-of-k>=3", "subset:empty", "subset:duplicate-share"],
    "positive-recoveries": ["recover:accepted", "recover:accepted:more-than-k", "recover:accepted:k=1"],
    "negative-recoveries": ["recover:rejected:too-few", "recover:rejected:mixed-id", "recover:rejected:digest", "recover:rejected:checksum", "recover:rejected:duplicate-index"],
    "two-way-differential": ["diff:lib->ref", "diff:ref->lib", "diff:ref->lib:k=1-all-n-shares"],
    "mixed-splits": ["mixed:diff-id", "mixed:forced-same-id", "mixed:forced-same-id:k+1", "mixed:params", "mixed:k1-diff-id", "relabel:id", "relabel:exponent", "relabel:threshold", "relabel:count"],
    "corruption-arities": ["corrupt:1", "corrupt:2", "corrupt:3", "corrupt:via-recover", "corrupt:all-positions-128", "corrupt:all-positions-256"],
    "codec": ["codec:synthetic", "codec:vector-shares", "codec:prefix-form"],
    "crypt": ["crypt:roundtrip", "crypt:wrong-passphrase"],
    "direct-sharing": ["direct:split", "direct:recover-secret:valid", "direct:recover-secret:digest-fails", "direct:interpolate"],
    "spec-vectors": ["vectors:valid", "vectors:invalid"],
    "repo-tests-under-contracts": {"quick": [], "thorough": ["repotests:ran"]},
}

_state = {"tag": None}


def anchors():
    from buidl import shamir

    S, SS = shamir.Share, shamir.ShareSet
    return [
        shamir.rs1024_polymod, shamir.rs1024_verify_checksum, shamir.rs1024_create_checksum,
        S.__dict__["parse"], S.mnemonic, SS.__init__, SS.__dict__["_load"], SS.__dict__["_crypt"], SS.decrypt,
        SS.__dict__["encrypt"], SS.__dict__["interpolate"], SS.__dict__["digest"], SS.__dict__["recover_secret"], SS.recover,
        SS.__dict__["split_secret"], SS.__dict__["generate_shares"], SS.__dict__["recover_mnemonic"],
    ]  # fmt: skip


# ---- library entropy ---------------------------------------------------------------------
class Entropy:
    """Replacement for secrets.randbits inside the library: values come from ctx.rng, every draw
    is logged (so a case is re-executable), the 15-bit identifier can be forced, and a recorded
    stream can be replayed."""

    def __init__(self, rng):
        self.rng = rng
        self.force_id = None
        self.log = bytearray()
        self.script = None

    def __call__(self, k):
        if self.script:
            v = self.script.pop(0)
        elif k == 15 and self.force_id is not None:
            v = self.force_id
        else:
            v = self.rng.getrandbits(k)
        self.log += (v & 0xFFFF).to_bytes(2, "big")
        return v

    def reset(self, script=None):
        self.log = bytearray()
        self.script = [int.from_bytes(script[i : i + 2], "big") for i in range(0, len(script), 2)] if script else None


ENT = Entropy(random.Random(0))


def install_entropy_stubs(ctx):
    from buidl import mnemonic, shamir

    ENT.rng = ctx.rng("library-entropy")
    shamir.randbits = ENT
    mnemonic.randbits = ENT
    clock = {"t": 1_700_000_000.0}

    def time():
        clock["t"] += 0.25
        return clock["t"]

    mnemonic.time = time


# ---- contracts ---------------------------------------------------------------------------
def _arg(args, kwargs, pos, name, default=None):
    if len(args) > pos:
        return args[pos]
    return kwargs.get(name, default)


def _is_values(v):
    return isinstance(v, (list, tuple)) and all(isinstance(x, int) and 0 <= x < 1024 for x in v)


def post_polymod(args, kwargs, pre, out):
    ctx = contracts.ctx()
    values = _arg(args, kwargs, 0, "values")
    if not _is_values(values):
        return NotImplemented
    exp = ref.rs1024_polymod(values)
    if out != ("ok", exp):
        ctx.violation("rs1024-polymod-differs", f"got {out[1]!r} expected {exp:#x}", {"op": "polymod", "values": list(values)})


def _cs_data(args, kwargs):
    cs = _arg(args, kwargs, 0, "cs")
    data = _arg(args, kwargs, 1, "data")
    if not (isinstance(cs, (bytes, bytearray)) and _is_values(data)):
        return None
    return bytes(cs), list(data)


def post_verify(args, kwargs, pre, out):
    ctx = contracts.ctx()
    cd = _cs_data(args, kwargs)
    if cd is None:
        return NotImplemented
    exp = ref.rs1024_verify_checksum(*cd)
    if exp != ref.rs1024_verify_syndromes(*cd):
        raise AssertionError("reference RS1024 formulations disagree")
    if out[0] != "ok" or bool(out[1]) != exp:
        mech = "rs1024-verify-accepts-invalid" if not exp else "rs1024-verify-rejects-valid"
        ctx.violation(mech, f"got {out[1]!r} expected {exp}", {"op": "verify", "cs": cd[0], "data": cd[1]})


def post_create(args, kwargs, pre, out):
    ctx = contracts.ctx()
    cd = _cs_data(args, kwargs)
    if cd is None:
        return NotImplemented
    exp = ref.rs1024_create_checksum(*cd)
    if out[0] != "ok" or list(out[1]) != exp:
        ctx.violation("rs1024-create-differs", f"got {out[1]!r} expected {exp}", {"op": "create", "cs": cd[0], "data": cd[1]})


SHARE_FIELDS = ("id", "exponent", "group_index", "group_threshold", "group_count", "member_index", "member_threshold")


def _share_fields(s):
    d = {f: getattr(s, f, None) for f in SHARE_FIELDS}
    d["value"] = getattr(s, "bytes", None)
    d["share_bit_length"] = getattr(s, "share_bit_length", None)
    return d


def _ext_ambiguous(text):
    """Bit 4 of the second word is the top bit of a 5-bit iteration exponent in the first edition of SLIP39 and the
    'extendable' flag (other checksum customisation) in the current one.  Such a text is judged only when both editions
    agree that it is invalid (checksum fails under both customisation strings); otherwise it is outside the quantifier."""
    if not ref.ext_bit_of(text):
        return False
    idx = [ref.resolve(t) for t in text.split()]
    if None in idx:
        return False
    return ref.rs1024_verify_checksum(ref.CS_PLAIN, idx) or ref.rs1024_verify_checksum(ref.CS_EXTENDABLE, idx)


def post_parse(args, kwargs, pre, out):
    ctx = contracts.ctx()
    m = _arg(args, kwargs, 1, "mnemonic")
    if not isinstance(m, str):
        return NotImplemented
    if _ext_ambiguous(m):
        ctx.count("observed:parse:ext-bit-or-exponent>=16-with-valid-checksum")
        return NotImplemented
    case = {"op": "parse", "mnemonic": m, "tag": _state["tag"]}
    try:
        exp = ref.decode_share(m)
        reason = None
    except ref.Slip39Error as e:
        exp, reason = None, e.reason
    if out[0] == "ok":
        if reason == "bad-length":
            ctx.count("observed:parse-accepts-length-with->8-padding-bits")
            return NotImplemented
        if reason is not None:
            ctx.violation("parse-accepts-invalid:" + reason, f"Share.parse accepted a text the reference rejects ({reason})", case)
        else:
            got = _share_fields(out[1])
            want = {f: exp[f] for f in SHARE_FIELDS}
            want["value"] = exp["value"]
            want["share_bit_length"] = 8 * len(exp["value"])
            if got != want:
                bad = sorted(f for f in want if got.get(f) != want[f])
                ctx.violation("parse-wrong-fields", f"fields {bad} differ: got {got} expected {want}", case)
            ctx.count("parse:accepted")
    else:
        if reason is None:
            ctx.violation("parse-rejects-valid", f"Share.parse raised {out[1]!r} on a share the reference decodes", case)
        else:
            ctx.rejected_by_exception += 1
            ctx.count("parse:rejected:" + reason)
    ctx.case({"op": "parse", "mnemonic": m})


def post_share_mnemonic(args, kwargs, pre, out):
    ctx = contracts.ctx()
    s = args[0]
    f = _share_fields(s)
    ok = (
        all(isinstance(f[x], int) for x in SHARE_FIELDS)
        and 0 <= f["id"] < 2**15 and 0 <= f["exponent"] < 16 and 0 <= f["group_index"] < 16 and 0 <= f["member_index"] < 16
        and 1 <= f["group_threshold"] <= 16 and 1 <= f["group_count"] <= 16 and 1 <= f["member_threshold"] <= 16
        and f["share_bit_length"] in (128, 256) and isinstance(f["value"], bytes) and len(f["value"]) * 8 == f["share_bit_length"]
    )  # fmt: skip
    if not ok:
        return NotImplemented
    case = {"op": "share-mnemonic", "fields": {x: f[x] for x in SHARE_FIELDS}, "value": f["value"]}
    exp = ref.share_text(f["id"], 0, f["exponent"], f["group_index"], f["group_threshold"], f["group_count"], f["member_index"], f["member_threshold"], f["value"])
    if out != ("ok", exp):
        ctx.violation("share-mnemonic-differs-from-spec", f"got {out[1]!r} expected {exp!r}", case)
    ctx.case(case)


def _crypt_ok(payload, ident, exponent, passphrase):
    return (
        isinstance(payload, (bytes, bytearray)) and len(payload) in (16, 32) and isinstance(ident, int) and 0 <= ident < 2**15
        and isinstance(exponent, int) and 0 <= exponent < 16 and isinstance(passphrase, (bytes, bytearray))
    )  # fmt: skip


def post_encrypt(args, kwargs, pre, out):
    ctx = contracts.ctx()
    payload, ident = _arg(args, kwargs, 1, "payload"), _arg(args, kwargs, 2, "id")
    exponent, passphrase = _arg(args, kwargs, 3, "exponent"), _arg(args, kwargs, 4, "passphrase", b"")
    if not _crypt_ok(payload, ident, exponent, passphrase):
        return NotImplemented
    case = {"op": "encrypt", "payload": bytes(payload), "id": ident, "exponent": exponent, "passphrase": bytes(passphrase)}
    exp = ref.encrypt(bytes(payload), bytes(passphrase), exponent, ident)
    if out != ("ok", exp):
        ctx.violation("encrypt-differs-from-spec", f"got {out[1]!r} expected {exp.hex()}", case)
    ctx.case(case)


def post_decrypt(args, kwargs, pre, out):
    ctx = contracts.ctx()
    self = args[0]
    payload, passphrase = _arg(args, kwargs, 1, "secret"), _arg(args, kwargs, 2, "passphrase", b"")
    ident, exponent = getattr(self, "id", None), getattr(self, "exponent", None)
    if not _crypt_ok(payload, ident, exponent, passphrase):
        return NotImplemented
    case = {"op": "decrypt", "payload": bytes(payload), "id": ident, "exponent": exponent, "passphrase": bytes(passphrase)}
    exp = ref.decrypt(bytes(payload), bytes(passphrase), exponent, ident)
    if out != ("ok", exp):
        ctx.violation("decrypt-differs-from-spec", f"got {out[1]!r} expected {exp.hex()}", case)
    ctx.case(case)


def _points(share_data):
    """[(x, bytes)] with pairwise distinct x in 0..255 and equal lengths, else None."""
    try:
        pts = [(int(x), bytes(y)) for x, y in share_data]
    except Exception:  # noqa: BLE001
        return None
    if not pts or len({x for x, _ in pts}) != len(pts) or len({len(y) for _, y in pts}) != 1:
        return None
    if not all(0 <= x < 256 for x, _ in pts) or not pts[0][1]:
        return None
    return pts


def post_interpolate(args, kwargs, pre, out):
    ctx = contracts.ctx()
    x, data = _arg(args, kwargs, 1, "x"), _arg(args, kwargs, 2, "share_data")
    pts = _points(data) if isinstance(x, int) and 0 <= x < 256 else None
    if pts is None:
        return NotImplemented
    exp = ref.interpolate(x, pts)
    if x in [p[0] for p in pts]:
        ctx.count("observed:interpolate-at-own-node:" + ("agrees" if out == ("ok", exp) else "differs"))
        return NotImplemented
    case = {"op": "interpolate", "x": x, "points": [[p[0], p[1]] for p in pts]}
    if out != ("ok", exp):
        ctx.violation("interpolate-differs-from-lagrange", f"x={x}, {len(pts)} points: got {out[1]!r} expected {exp.hex()}", case)
    ctx.case(case)


def _recover_all(pts):
    """Interpolate through *all* given points and verify the digest (what 'at least k shares' means)."""
    secret = ref.interpolate(ref.SECRET_INDEX, pts)
    ds = ref.interpolate(ref.DIGEST_INDEX, pts)
    return secret if ds[:4] == ref.digest(ds[4:], secret) else None


def post_recover_secret(args, kwargs, pre, out):
    ctx = contracts.ctx()
    pts = _points(_arg(args, kwargs, 1, "share_data"))
    if pts is None or len(pts[0][1]) < 5 or any(x >= 254 for x, _ in pts):
        return NotImplemented
    case = {"op": "recover_secret", "points": [[p[0], p[1]] for p in pts]}
    exp = _recover_all(pts)
    if out[0] == "ok":
        if exp is None:
            ctx.violation("recover-secret-accepts-bad-digest", f"returned {out[1]!r} although the digest share does not authenticate it", case)
        elif out[1] != exp:
            ctx.violation("recover-secret-wrong-value", f"got {out[1]!r} expected {exp.hex()}", case)
        ctx.count("direct:recover-secret:valid")
    else:
        if exp is not None:
            ctx.violation("recover-secret-rejects-valid", f"raised {out[1]!r}", case)
        else:
            ctx.rejected_by_exception += 1
            ctx.count("direct:recover-secret:digest-fails")
    ctx.case(case)


def _subset_rng(*parts):
    return random.Random(int.from_bytes(hashlib.sha256(repr(parts).encode()).digest()[:8], "big"))


def post_split(args, kwargs, pre, out):
    ctx = contracts.ctx()
    secret, k, n = _arg(args, kwargs, 1, "secret"), _arg(args, kwargs, 2, "k"), _arg(args, kwargs, 3, "n")
    if not (isinstance(secret, (bytes, bytearray)) and len(secret) in (16, 32) and isinstance(k, int) and isinstance(n, int) and 1 <= k <= n <= 16):
        return NotImplemented
    secret = bytes(secret)
    case = {"op": "split", "secret": secret, "k": k, "n": n, "draws": bytes(ENT.log[pre or 0 :])}
    ctx.case(case)
    if out[0] == "exc":
        ctx.violation("split-raises", f"split_secret({k},{n}) raised {out[1]!r}", case)
        return
    pts = _points(out[1])
    if k == 1:
        # SLIP-0039 SplitSecret: "If T is 1, then let y_i = S for all i, 1 <= i <= N": n shares x = 0..n-1, each the secret
        ctx.count("k=1:split-returns-%s-shares" % ("1" if len(out[1]) == 1 else "n" if len(out[1]) == n else "other"))
        if pts is None or any(y != secret for _, y in pts):
            ctx.violation("split-k1-share-is-not-the-secret", "with threshold 1 every share is the secret itself", case)
        elif len(pts) != n or sorted(x for x, _ in pts) != list(range(n)):
            ctx.violation("split-k1-wrong-share-count", f"1-of-{n} split returned {len(pts)} share(s) with x = {[x for x, _ in pts]}; the n custodians need one share each", case)
        return
    if pts is None or len(pts) != n or sorted(x for x, _ in pts) != list(range(n)):
        ctx.violation("split-wrong-share-set", f"expected {n} shares of {len(secret)} bytes with x = 0..{n-1}, got x = {[p[0] for p in out[1]]} with lengths {sorted({len(p[1]) for p in out[1]})}", case)
        return
    r = _subset_rng(secret, k, n, pts[0][1])
    subsets = [pts[:k], pts[-k:], r.sample(pts, k), r.sample(pts, k), pts]
    if k < n:
        subsets.append(r.sample(pts, r.randrange(k + 1, n + 1)))
    for sub in subsets:
        got = _recover_all(sub)
        if got is None:
            ctx.violation("split-shares-fail-digest", f"{len(sub)} of the {n} shares (k={k}): the reference cannot authenticate the interpolated secret", case)
            return
        if got != secret:
            ctx.violation("split-shares-recover-wrong-secret", f"{len(sub)} of {n} shares give {got.hex()}", case)
            return


def post_generate(args, kwargs, pre, out):
    ctx = contracts.ctx()
    m, k, n = _arg(args, kwargs, 1, "mnemonic"), _arg(args, kwargs, 2, "k"), _arg(args, kwargs, 3, "n")
    pw, e = _arg(args, kwargs, 4, "passphrase", b""), _arg(args, kwargs, 5, "exponent", 0)
    if not (isinstance(m, str) and isinstance(k, int) and isinstance(n, int) and 1 <= k <= n <= 16 and isinstance(pw, (bytes, bytearray)) and isinstance(e, int) and 0 <= e < 16):
        return NotImplemented
    verdict, ent, _ = ref39.classify(m.split())
    if verdict != "valid" or len(ent) not in (16, 32):
        return NotImplemented
    pw = bytes(pw)
    case = {"op": "generate", "mnemonic": m, "k": k, "n": n, "passphrase": pw, "exponent": e, "draws": bytes(ENT.log[pre or 0 :])}
    ctx.case(case)
    if out[0] == "exc":
        ctx.violation("generate-raises", f"generate_shares({k},{n}) raised {out[1]!r}", case)
        return
    shares = out[1]
    if not (isinstance(shares, list) and shares and all(isinstance(s, str) for s in shares)):
        ctx.violation("generate-wrong-share-count", f"returned {shares!r}", case)
        return
    if k == 1:
        ctx.count("k=1:generate-returns-%s-shares" % ("1" if len(shares) == 1 else "n" if len(shares) == n else "other"))
    if len(shares) != n or len(set(shares)) != n:
        ctx.violation("generate-wrong-share-count", f"{len(shares)} shares ({len(set(shares))} distinct) for n={n}", case)
        return
    try:
        dec = [ref.decode_share(s) for s in shares]
    except ref.Slip39Error as err:
        ctx.violation("generate-emits-undecodable-share:" + err.reason, "the reference cannot decode a produced share", case)
        return
    hdr_ok = (
        len({d["id"] for d in dec}) == 1
        and all(d["ext"] == 0 and d["exponent"] == e and d["group_threshold"] == k and d["group_count"] == n for d in dec)
        and all(d["member_index"] == 0 and d["member_threshold"] == 1 and len(d["value"]) == len(ent) for d in dec)
        and len({d["group_index"] for d in dec}) == len(dec) and all(d["group_index"] < n for d in dec)
    )  # fmt: skip
    if not hdr_ok:
        ctx.violation("generate-wrong-header", "identifier / exponent / threshold / count / index fields of the produced shares are inconsistent with the request", case)
        return
    r = _subset_rng(m, k, n, shares[0])
    if k == 1:
        subsets = [[s] for s in shares[:2]] + [[shares[-1]]] + ([shares, r.sample(shares, 2)] if n >= 2 else [])
    else:
        subsets = [shares[:k], shares[-k:], r.sample(shares, k), shares]
        if k < n:
            subsets.append(r.sample(shares, r.randrange(k + 1, n + 1)))
    ems_seen = set()
    for sub in subsets:
        try:
            ems, p = ref.recover_ems(sub)
        except ref.Slip39Error as err:
            ctx.violation("generate-shares-not-recoverable-by-reference:" + err.reason, f"{len(sub)} of {n} produced shares (k={k})", case)
            return
        ems_seen.add(ems)
    if len(ems_seen) != 1:
        ctx.violation("generate-shares-inconsistent", "different subsets interpolate to different encrypted secrets", case)
        return
    got = ref.decrypt(ems_seen.pop(), pw, e, dec[0]["id"])
    if got != ent:
        ctx.violation("generate-shares-recover-wrong-secret", f"reference recovers {got.hex()} expected {ent.hex()}", case)
        return
    ctx.count("diff:lib->ref")


def post_recover_mnemonic(args, kwargs, pre, out):
    ctx = contracts.ctx()
    shares, pw = _arg(args, kwargs, 1, "share_mnemonics"), _arg(args, kwargs, 2, "passphrase", b"")
    if not (isinstance(shares, (list, tuple)) and all(isinstance(s, str) for s in shares) and isinstance(pw, (bytes, bytearray))):
        return NotImplemented
    shares, pw = list(shares), bytes(pw)
    if any(_ext_ambiguous(s) for s in shares):
        return NotImplemented
    case = {"op": "recover", "shares": shares, "passphrase": pw, "tag": _state["tag"]}
    try:
        ems, p = ref.recover_ems(shares)
        reason = None
    except ref.Slip39Error as err:
        ems, p, reason = None, None, err.reason
    if out[0] == "ok":
        if reason in ("duplicate-index", "bad-length"):
            ctx.count("observed:recover-accepts:" + reason)
            return NotImplemented
        if reason is not None:
            ctx.violation("recover-accepts-invalid:" + reason, f"returned a mnemonic for a set of {len(shares)} shares the reference rejects ({reason})", case)
        else:
            secret = ref.decrypt(ems, pw, p["exponent"], p["id"])
            exp = ref39.entropy_to_mnemonic(secret) if len(secret) in (16, 20, 24, 28, 32) else None
            if exp is None:
                return NotImplemented
            if out[1] != exp:
                ctx.violation("recover-wrong-mnemonic", f"got {out[1]!r} expected {exp!r}", case)
            ctx.count("recover:accepted")
            k = p["group_threshold"]
            if k == 1:
                ctx.count("recover:accepted:k=1")
            elif len({ref.decode_share(s)["group_index"] for s in shares}) > k:
                ctx.count("recover:accepted:more-than-k")
    else:
        if reason is None:
            k = p["group_threshold"]
            ng = len({ref.decode_share(s)["group_index"] for s in shares})
            cls = "k=1" if k == 1 else "exactly-k" if ng == k else "more-than-k"
            ctx.violation("recover-rejects-valid:" + cls, f"raised {out[1]!r} on {len(shares)} consistent shares (threshold {k})", case)
        else:
            ctx.rejected_by_exception += 1
            ctx.count("recover:rejected:" + reason)
    ctx.case({"op": "recover", "shares": shares, "passphrase": pw})


def _log_mark(*a, **kw):
    """pre-state: how many draws of library entropy precede this call (the case records only its own)"""
    return len(ENT.log)


def install():
    from buidl import hd, mnemonic, shamir  # noqa: F401 - load aliasing modules first

    contracts.install(shamir, "rs1024_polymod", post_polymod)
    contracts.install(shamir, "rs1024_verify_checksum", post_verify)
    contracts.install(shamir, "rs1024_create_checksum", post_create)
    contracts.install(shamir.Share, "parse", post_parse)
    contracts.install(shamir.Share, "mnemonic", post_share_mnemonic)
    SS = shamir.ShareSet
    contracts.install(SS, "encrypt", post_encrypt)
    contracts.install(SS, "decrypt", post_decrypt)
    contracts.install(SS, "interpolate", post_interpolate)
    contracts.install(SS, "recover_secret", post_recover_secret)
    contracts.install(SS, "split_secret", post_split, snap=_log_mark)
    contracts.install(SS, "generate_shares", post_generate, snap=_log_mark)
    contracts.install(SS, "recover_mnemonic", post_recover_mnemonic)


# ---- structural invariants of the GF(256) tables -----------------------------------------
def table_snapshot():
    from buidl.shamir import ShareSet

    return (tuple(ShareSet.exp), tuple(ShareSet.log2))


def check_tables(ctx, idx, n):
    """Multiplication and inversion as the library performs them (exp[(log a + log b) mod 255]) against
    shift-and-xor multiplication: all 65 536 products (rows split over the shards), all 255 inverses."""
    from buidl.shamir import ShareSet

    exp, log = ShareSet.exp, ShareSet.log2
    ctx.monitor("gf-tables")
    if len(exp) != 255 or len(log) != 256 or sorted(exp) != list(range(1, 256)) or sorted(log[1:]) != list(range(255)):
        ctx.violation("gf-tables-not-a-bijection", "exp must enumerate 1..255 once, log2[1..255] must enumerate 0..254 once", {"op": "tables"})
        return
    for a in range(256):
        if a % n != idx:
            continue
        for b in range(256):
            ctx.monitor("gf-tables")
            ctx.count("tables:products")
            got = 0 if a == 0 or b == 0 else exp[(log[a] + log[b]) % 255]
            if got != ref.gf_mul(a, b):
                ctx.violation("gf-tables-wrong-product", f"{a}*{b}: tables give {got}, field gives {ref.gf_mul(a, b)}", {"op": "tables", "a": a, "b": b})
                return
    ctx.exhaustive.append("GF(256): all 65536 products via exp/log2 tables (rows a = idx mod 16 per shard)")
    for a in range(1, 256):
        ctx.monitor("gf-tables")
        ctx.count("tables:inverses")
        inv = exp[(-log[a]) % 255]
        if ref.gf_mul(a, inv) != 1 or exp[log[a]] != a:
            ctx.violation("gf-tables-wrong-inverse", f"a={a}", {"op": "tables", "a": a, "b": inv})
            return
    ctx.exhaustive.append("GF(256): all 255 inverses via exp/log2 tables")


def check_tables_unchanged(ctx, snap):
    ctx.monitor("gf-tables")
    ctx.count("tables:unchanged")
    if table_snapshot() != snap:
        ctx.violation("gf-tables-mutated", "ShareSet.exp / ShareSet.log2 changed during the workload", {"op": "tables"})


# ---- workload helpers ----------------------------------------------------------------------
COUNTS = {
    # reps: jobs per (pair, size); subsets: cap of k-subsets / (k-1)-subsets per job; single: shares whose every position gets all
    # 1023 substitutions; multi: sampled 2- and 3-word corruptions (each); direct/codec/crypt: direct-call counts
    "quick": dict(reps=1, subsets=5, single=1, multi=2500, direct=40, codec=300, crypt=40),
    "thorough": dict(reps=5, subsets=16, single=8, multi=100000, direct=800, codec=8000, crypt=800),
}


def shards(tier, seed):
    n = 16
    out = [{"name": "mix", "idx": i, "n": n, "budget_s": 1200 if tier == "quick" else 6600} for i in range(n)]
    if tier == "thorough":
        out.append({"name": "repotests", "idx": 0, "n": 1, "budget_s": 6600})
    return out


def rand_bytes(rng, n):
    return bytes(rng.getrandbits(8) for _ in range(n))


def passphrase_for(ctx, rng, j):
    cls = PASS_CLASSES[j % len(PASS_CLASSES)]
    ctx.count("pass:" + cls)
    if cls == "empty":
        return b""
    if cls == "ascii":
        return rng.choice([b"TREZOR", b"buidltest", bytes(rng.randrange(0x20, 0x7F) for _ in range(rng.randrange(1, 30)))])
    if cls == "non-ascii":
        return rng.choice(["パスワード".encode("utf-8"), b"\x00\xff\x80", bytes(rng.randrange(0x80, 0x100) for _ in range(rng.randrange(1, 30)))])
    return rand_bytes(rng, rng.randrange(65, 200))


def region_counts(ctx, k, n):
    ctx.count("pair:%d-%d" % (k, n))
    if k == 1:
        ctx.count("kn:k=1,n=1" if n == 1 else "kn:k=1,n>1")
    if k == 2:
        ctx.count("kn:k=2")
    if k == n and k > 1:
        ctx.count("kn:k=n")
    if 2 < k < n:
        ctx.count("kn:2<k<n")
    if n == 16:
        ctx.count("kn:n=16")
    if k == 16:
        ctx.count("kn:k=16")


def recover(ctx, shares, pw, tag):
    from buidl.shamir import ShareSet

    _state["tag"] = tag
    o = outcome(ShareSet.recover_mnemonic, list(shares), pw)
    _state["tag"] = None
    return o


def expect_original(ctx, shares, pw, mnemonic, tag):
    """Statement, verbatim: k or more distinct shares recover exactly the original mnemonic."""
    o = recover(ctx, shares, pw, tag)
    ctx.monitor("positive-set-returns-original")
    if o != ("ok", mnemonic):
        what = "raised " + o[1] if o[0] == "exc" else "returned another mnemonic"
        ctx.violation("sufficient-set-does-not-return-original:" + ("rejected" if o[0] == "exc" else "wrong-mnemonic"), f"{tag}: {len(shares)} shares: {what}", {"op": "recover", "shares": list(shares), "passphrase": pw, "tag": tag})
    _state["reuse_n"] = _state.get("reuse_n", 0) + 1
    if _state["reuse_n"] % 4 == 1:
        reuse_history(ctx, shares, pw, mnemonic, tag)
    return o


def reuse_history(ctx, shares, pw, mnemonic, tag):
    """ONE ShareSet object asked twice: first with another passphrase, then with the right one.  The second
    answer must still be the original secret - the result may not depend on what the object was asked before."""
    from buidl.mnemonic import bytes_to_mnemonic
    from buidl.shamir import Share, ShareSet

    def go():
        ss = ShareSet([Share.parse(m) for m in shares])
        first = ss.recover(b"another passphrase " + bytes(pw))
        second = ss.recover(pw)
        third = ss.recover(pw)
        return first, bytes_to_mnemonic(second, ss.share_bit_length), bytes_to_mnemonic(third, ss.share_bit_length)

    with contracts.suspended():
        o = outcome(go)
    ctx.count("reuse:shareset-object-asked-twice")
    ctx.monitor("shareset-object-reuse")
    case = {"op": "recover", "shares": list(shares), "passphrase": pw, "tag": tag}
    if o[0] == "exc":
        ctx.violation("shareset-reuse-raises", f"{tag}: {o[1]}", case)
    elif o[1][1] != mnemonic or o[1][2] != mnemonic:
        ctx.violation("recover-depends-on-earlier-call-on-same-object", f"{tag}: second recover() after a call with another passphrase returned a different secret", case)


def expect_refusal(ctx, shares, pw, tag, mech):
    """Negative sets: any returned mnemonic is the refuting event; an exception is a rejection."""
    o = recover(ctx, shares, pw, tag)
    ctx.monitor("negative-set-returns-nothing")
    if o[0] == "ok":
        ctx.violation(mech, f"{tag}: {len(shares)} shares returned {o[1]!r}", {"op": "recover", "shares": list(shares), "passphrase": pw, "tag": tag})
    return o


def pick_subsets(rng, items, size, cap):
    """All subsets of `size` when there are at most `cap`, else `cap` sampled ones (first/last forced)."""
    n = len(items)
    if size < 0 or size > n:
        return []
    total = 1
    for i in range(size):
        total = total * (n - i) // (i + 1)
    if total <= cap:
        return [list(c) for c in itertools.combinations(items, size)]
    out = [items[:size], items[n - size :]]
    seen = {tuple(out[0]), tuple(out[1])}
    while len(out) < cap:
        c = tuple(sorted(rng.sample(range(n), size)))
        s = tuple(items[i] for i in c)
        if s not in seen:
            seen.add(s)
            out.append(list(s))
    return out


def lib_generate(ctx, mnemonic, k, n, pw, e, force_id=None):
    from buidl.shamir import ShareSet

    ENT.reset()
    ENT.force_id = force_id
    o = outcome(ShareSet.generate_shares, mnemonic, k, n, pw, e)
    ENT.force_id = None
    return o[1] if o[0] == "ok" and isinstance(o[1], list) and all(isinstance(s, str) for s in o[1]) else None


def relabel(share_text, **changes):
    f = ref.decode_share(share_text)
    f.update(changes)
    return ref.share_text(**f)


def job(ctx, rng, k, n, size, e, jn, c):
    """One (k, n, secret size, exponent) job: library split and reference split of the same entropy,
    recoveries over subset sizes, mixtures, relabelled headers, corrupted members."""
    pw = passphrase_for(ctx, rng, jn // 2)
    ent = rand_bytes(rng, size) if jn % 5 else bytes([jn % 256]) * size
    mnemonic = ref39.entropy_to_mnemonic(ent)
    ctx.count("secret:%d" % size)
    ctx.count("exp:%d" % e)
    region_counts(ctx, k, n)
    cap = c["subsets"]
    full_cap = 70 if (ctx.tier == "thorough" and n <= 8) else cap
    lib = lib_generate(ctx, mnemonic, k, n, pw, e)
    ident = rng.getrandbits(15)
    refs = ref.generate_flat(ent, k, n, pw, e, ident, rng)
    if jn < 2:
        ctx.sample({"k": k, "n": n, "mnemonic": mnemonic, "passphrase": pw, "exponent": e, "library_shares": lib[:2] if lib else None})
    for origin, shares in (("lib", lib), ("ref", refs)):
        if not shares:
            continue
        if origin == "ref":
            ctx.count("diff:ref->lib")
        m = len(shares)
        if k == 1:
            # the library emits one share; the reference (specification) emits n copies with indices 0..n-1
            for s in shares[: max(2, cap // 2)]:
                expect_original(ctx, [s], pw, mnemonic, origin + ":k=1:single")
            if m > 1:
                ctx.count("diff:ref->lib:k=1-all-n-shares")
                expect_original(ctx, shares, pw, mnemonic, origin + ":k=1:all")
                expect_original(ctx, rng.sample(shares, rng.randrange(2, m + 1)), pw, mnemonic, origin + ":k=1:some")
            ctx.count("subset:empty")
            expect_refusal(ctx, [], pw, origin + ":empty", "empty-set-returns-mnemonic")
            continue
        for sub in pick_subsets(rng, shares, k, full_cap):
            ctx.count("subset:k")
            rng.shuffle(sub)
            expect_original(ctx, sub, pw, mnemonic, origin + ":size=k")
        if k < m:
            for sub in pick_subsets(rng, shares, k + 1, max(2, cap // 2)):
                ctx.count("subset:k+1")
                rng.shuffle(sub)
                expect_original(ctx, sub, pw, mnemonic, origin + ":size=k+1")
            ctx.count("subset:n")
            expect_original(ctx, shares, pw, mnemonic, origin + ":size=n")
            if k + 1 < m:
                ctx.count("subset:between")
                expect_original(ctx, rng.sample(shares, rng.randrange(k + 1, m)), pw, mnemonic, origin + ":k<size<n")
        else:
            ctx.count("subset:n")
        for sub in pick_subsets(rng, shares, k - 1, full_cap):
            ctx.count("subset:k-1")
            expect_refusal(ctx, sub, pw, origin + ":size=k-1", "fewer-than-k-shares-return-mnemonic")
        if k >= 3:
            ctx.count("subset:single-of-k>=3")
            expect_refusal(ctx, [rng.choice(shares)], pw, origin + ":size=1", "fewer-than-k-shares-return-mnemonic")
            expect_refusal(ctx, rng.sample(shares, rng.randrange(1, k)), pw, origin + ":size<k", "fewer-than-k-shares-return-mnemonic")
        ctx.count("subset:empty")
        expect_refusal(ctx, [], pw, origin + ":empty", "empty-set-returns-mnemonic")
        # k-1 distinct shares, one of them given twice: still fewer than k distinct shares
        sub = rng.sample(shares, k - 1)
        ctx.count("subset:duplicate-share")
        expect_refusal(ctx, sub + [rng.choice(sub)], pw, origin + ":duplicate", "duplicate-share-counts-towards-threshold")
    # wrong passphrase: legitimately another mnemonic (no assertion beyond the contract's comparison with the reference)
    if lib and jn % 2 == 0:
        o = recover(ctx, lib[: max(k, 1)], pw + b"x", "wrong-passphrase")
        ctx.count("crypt:wrong-passphrase")
        ctx.count("observed:wrong-passphrase:" + ("different-mnemonic" if o[0] == "ok" and o[1] != mnemonic else "same-or-rejected"))
    if lib:
        mixtures(ctx, rng, k, n, size, e, pw, ent, mnemonic, lib, refs)
        corrupted_members(ctx, rng, k, lib, pw, mnemonic)


def mixtures(ctx, rng, k, n, size, e, pw, ent, mnemonic, lib, refs):
    """Shares of different splits must not combine."""
    other_ent = rand_bytes(rng, size)
    other = ref39.entropy_to_mnemonic(other_ent if rng.random() < 0.7 else ent)
    if k == 1:
        if n >= 2:
            # two threshold-1 splits (reference-made: indices 0..n-1) with different identifiers
            a = ref.decode_share(refs[0])["id"]
            b = ref.generate_flat(other_ent, 1, n, pw, e, (a + 1 + rng.randrange(2**15 - 1)) % 2**15, rng)
            ctx.count("mixed:k1-diff-id")
            expect_refusal(ctx, [refs[0], b[1]], pw, "mixed:k1-diff-id", "mixed-splits-return-mnemonic:different-identifier")
            expect_refusal(ctx, [b[n - 1], refs[0]], pw, "mixed:k1-diff-id", "mixed-splits-return-mnemonic:different-identifier")
        return
    my_id = ref.decode_share(lib[0])["id"]
    # (a) a second library split, identifier left to the (stubbed) generator: almost surely different
    b = lib_generate(ctx, other, k, n, pw, e)
    if b and ref.decode_share(b[0])["id"] != my_id:
        ctx.count("mixed:diff-id")
        idx = rng.sample(range(n), k)
        expect_refusal(ctx, [lib[i] for i in idx[:-1]] + [b[idx[-1]]], pw, "mixed:diff-id", "mixed-splits-return-mnemonic:different-identifier")
    # (b) the identifier collision forced through the stub: only the digest separates the splits
    b = lib_generate(ctx, other, k, n, pw, e, force_id=my_id)
    if b and ref.decode_share(b[0])["id"] == my_id:
        ctx.count("mixed:forced-same-id")
        idx = rng.sample(range(n), k)
        for cut in sorted({1, k - 1, (k + 1) // 2}):
            if 0 < cut < k or k == 2:
                cut = min(cut, k - 1)
                expect_refusal(ctx, [lib[i] for i in idx[:cut]] + [b[i] for i in idx[cut:]], pw, "mixed:forced-same-id", "mixed-splits-return-mnemonic:same-identifier")
        if k < n:
            idx = rng.sample(range(n), k + 1)
            ctx.count("mixed:forced-same-id:k+1")
            expect_refusal(ctx, [lib[i] for i in idx[:-1]] + [b[idx[-1]]], pw, "mixed:forced-same-id:k+1", "mixed-splits-return-mnemonic:same-identifier")
    # (c) same identifier, different parameters (threshold, count, exponent or size)
    k2, n2, e2, size2 = k, n, e, size
    which = rng.randrange(4)
    if which == 0 and n < 16:
        n2 = n + 1
    elif which == 1 and k < n:
        k2 = k + 1
    elif which == 2:
        e2 = (e + 1) % 3
    else:
        size2 = 48 - size
    if (k2, n2, e2, size2) != (k, n, e, size):
        b = lib_generate(ctx, ref39.entropy_to_mnemonic(rand_bytes(rng, size2)), k2, n2, pw, e2, force_id=my_id)
        if b:
            ctx.count("mixed:params")
            idx = rng.sample(range(n), k)
            expect_refusal(ctx, [lib[i] for i in idx[:-1]] + [b[idx[-1]]], pw, "mixed:params", "mixed-splits-return-mnemonic:different-parameters")
    # (d) one member of a sufficient set re-labelled (valid checksum) as belonging to another split
    idx = rng.sample(range(n), k)
    sub = [lib[i] for i in idx]
    p = rng.randrange(k)
    variants = [("relabel:id", {"id": (my_id + 1 + rng.randrange(2**15 - 1)) % 2**15}), ("relabel:exponent", {"exponent": (e + 1 + rng.randrange(2)) % 3})]
    if k < n:
        variants.append(("relabel:threshold", {"group_threshold": k + 1}))
    elif k > 2:
        variants.append(("relabel:threshold", {"group_threshold": k - 1}))
    variants.append(("relabel:count", {"group_count": n + 1 if n < 16 else max(k, n - 1)}))
    for tag, ch in variants:
        if ch.get("group_count") == n:
            continue
        forged = list(sub)
        forged[p] = relabel(sub[p], **ch)
        ctx.count(tag)
        expect_refusal(ctx, forged, pw, tag, "mixed-splits-return-mnemonic:relabelled-" + tag.split(":")[1])


def corrupt(rng, words, text, arity):
    toks = text.split()
    for p in rng.sample(range(len(toks)), arity):
        i = ref.resolve(toks[p])
        toks[p] = words[(i + rng.randrange(1, 1024)) % 1024]
    return " ".join(toks)


def parse_corrupted(ctx, text, arity, orig):
    from buidl.shamir import Share

    _state["tag"] = "corrupt:%d" % arity
    o = outcome(Share.parse, text)
    _state["tag"] = None
    ctx.count("corrupt:%d" % arity)
    if o[0] == "ok":
        ctx.monitor("corrupted-share-not-accepted")
        ctx.violation("corrupted-share-accepted:%d-words" % arity, f"Share.parse accepted a share with {arity} substituted word(s)", {"op": "parse", "mnemonic": text, "tag": "corrupt:%d" % arity})


def corrupted_members(ctx, rng, k, lib, pw, mnemonic):
    words = ref.words()
    sub = rng.sample(lib, min(len(lib), max(k, 1)))
    for arity in (1, 2, 3):
        bad = list(sub)
        p = rng.randrange(len(bad))
        bad[p] = corrupt(rng, words, bad[p], arity)
        ctx.count("corrupt:via-recover")
        expect_refusal(ctx, bad, pw, "corrupt:%d:via-recover" % arity, "set-with-corrupted-share-returns-mnemonic")


def corruption_sweep(ctx, rng, c, pool):
    """All 1023 substitutions at every position of sampled shares (both lengths); sampled 2- and 3-word ones."""
    words = ref.words()
    short = [s for s in pool if len(s.split()) == 20]
    long_ = [s for s in pool if len(s.split()) == 33]
    chosen = []
    for j in range(c["single"]):
        src = (short, long_)[(j + ctx.desc["idx"]) % 2] or short or long_
        if src:
            chosen.append(src[rng.randrange(len(src))])
    for text in chosen:
        toks = text.split()
        for p in range(len(toks)):
            i = ref.resolve(toks[p])
            for w in range(1024):
                if w != i:
                    parse_corrupted(ctx, " ".join(toks[:p] + [words[w]] + toks[p + 1 :]), 1, text)
        ctx.count("corrupt:all-positions-%d" % (128 if len(toks) == 20 else 256))
        ctx.exhaustive.append("all 1023 single-word substitutions at every position of each sampled %d-word share" % len(toks))
    for j in range(c["multi"]):
        text = pool[rng.randrange(len(pool))]
        parse_corrupted(ctx, corrupt(rng, words, text, 2), 2, text)
        parse_corrupted(ctx, corrupt(rng, words, text, 3), 3, text)


def crypt_direct(ctx, rng, count):
    from buidl.shamir import Share, ShareSet

    for j in range(count):
        size, e = (16, 32)[j % 2], (j // 2) % 3
        payload, ident = rand_bytes(rng, size), rng.getrandbits(15) if j % 7 else (0, 2**15 - 1)[j % 2]
        pw = passphrase_for(ctx, rng, j)
        ctx.count("exp:%d" % e)
        o = outcome(ShareSet.encrypt, payload, ident, e, pw)
        if o[0] != "ok":
            ctx.violation("encrypt-raises", o[1], {"op": "encrypt", "payload": payload, "id": ident, "exponent": e, "passphrase": pw})
            continue
        holder = outcome(lambda: ShareSet([Share(size * 8, ident, e, 0, 1, 1, 0, 1, 0)]))
        if holder[0] != "ok":
            continue
        o2 = outcome(holder[1].decrypt, o[1], pw)
        ctx.monitor("decrypt-inverts-encrypt")
        ctx.count("crypt:roundtrip")
        if o2 != ("ok", payload):
            ctx.violation("decrypt-does-not-invert-encrypt", f"decrypt(encrypt(x)) = {o2[1]!r}", {"op": "decrypt", "payload": o[1] if isinstance(o[1], bytes) else b"", "id": ident, "exponent": e, "passphrase": pw})
        if j % 4 == 0:
            outcome(holder[1].decrypt, o[1], pw + b"\x00")
            ctx.count("crypt:wrong-passphrase")


def sharing_direct(ctx, rng, count, idx, n_shards):
    """split_secret / recover_secret / interpolate called directly, over all 136 (k, n)."""
    from buidl.shamir import ShareSet

    pairs = [p for i, p in enumerate(ALL_PAIRS) if i % n_shards == idx]
    for j in range(count):
        k, n = pairs[j % len(pairs)] if j < 2 * len(pairs) else ALL_PAIRS[rng.randrange(136)]
        secret = rand_bytes(rng, (16, 32)[j % 2])
        ENT.reset()
        o = outcome(ShareSet.split_secret, secret, k, n)
        ctx.count("direct:split")
        if o[0] != "ok" or k == 1:
            continue
        data = list(o[1])
        sub = rng.sample(data, rng.randrange(k, n + 1))
        outcome(ShareSet.recover_secret, sub)
        if k > 2:
            outcome(ShareSet.recover_secret, rng.sample(data, k - 1))  # digest must fail
        bad = [list(p) for p in rng.sample(data, k)]
        y = bytearray(bad[0][1])
        y[rng.randrange(len(y))] ^= 1 << rng.randrange(8)
        bad[0][1] = bytes(y)
        outcome(ShareSet.recover_secret, [tuple(p) for p in bad])  # a flipped bit must fail the digest
        free = [x for x in range(256) if x not in {p[0] for p in sub}]
        for x in (rng.choice(free), 254, 255):
            ctx.count("direct:interpolate")
            outcome(ShareSet.interpolate, x, sub)
        outcome(ShareSet.interpolate, sub[0][0], sub)  # at an own node: observation only
    # interpolation identities on reference-made polynomials with arbitrary nodes (not only 0..15)
    for j in range(count):
        deg = rng.randrange(1, 17)
        xs = rng.sample(range(256), deg + 3)
        base = [(x, rand_bytes(rng, (16, 32)[j % 2])) for x in xs[:deg]]
        pts = base + [(x, ref.interpolate(x, base)) for x in xs[deg : deg + 2]]
        sub = rng.sample(pts, deg)
        ctx.count("direct:interpolate")
        outcome(ShareSet.interpolate, xs[deg + 2], sub)


def codec(ctx, rng, count):
    """Share objects with arbitrary header fields: mnemonic() then parse() must give the fields back."""
    from buidl.shamir import Share

    for j in range(count):
        bits = (128, 256)[j % 2]
        g = rng.randrange(1, 17)
        f = dict(
            share_bit_length=bits, id=rng.getrandbits(15) if j % 9 else (0, 2**15 - 1)[j % 2], exponent=rng.randrange(16) if j % 3 == 0 else rng.randrange(3),
            group_index=rng.randrange(16), group_threshold=rng.randrange(1, g + 1), group_count=g, member_index=rng.randrange(16),
            member_threshold=rng.randrange(1, 17), value=rng.getrandbits(bits) if j % 11 else (0, 2**bits - 1)[j % 2],
        )  # fmt: skip
        o = outcome(lambda: Share(**f))
        if o[0] != "ok":
            continue
        ctx.count("codec:synthetic")
        t = outcome(o[1].mnemonic)
        if t[0] != "ok" or not isinstance(t[1], str):
            continue
        text = t[1]
        if j % 5 == 0:
            text = " ".join(w[:4] for w in text.split())
            ctx.count("codec:prefix-form")
        _state["tag"] = "codec"
        back = outcome(Share.parse, text)
        _state["tag"] = None
        ctx.monitor("share-text-roundtrip")
        want = {x: f[x] for x in SHARE_FIELDS}
        if back[0] != "ok" or {x: getattr(back[1], x, None) for x in SHARE_FIELDS} != want or back[1].value != f["value"]:
            ctx.violation("share-text-roundtrip-fails", f"parse(mnemonic(share)) = {back!r}", {"op": "share-mnemonic", "fields": want, "value": f["value"].to_bytes(bits // 8, "big")})


def official_vectors(ctx):
    from buidl.shamir import Share

    for desc, mnemonics, ms_hex in ref.OFFICIAL_VECTORS:
        if ms_hex:
            ctx.count("vectors:valid")
            expect_original(ctx, mnemonics, b"TREZOR", ref39.entropy_to_mnemonic(bytes.fromhex(ms_hex)), "vector:" + desc.split(".")[0])
            for m in mnemonics:
                ctx.count("codec:vector-shares")
                p = outcome(Share.parse, m)
                t = outcome(p[1].mnemonic) if p[0] == "ok" else p
                ctx.monitor("share-text-roundtrip")
                if t != ("ok", m):
                    ctx.violation("share-text-roundtrip-fails", f"mnemonic(parse(text)) = {t!r}", {"op": "parse", "mnemonic": m, "tag": "vector"})
        else:
            ctx.count("vectors:invalid")
            expect_refusal(ctx, mnemonics, b"TREZOR", "vector:" + desc.split(".")[0], "invalid-official-vector-returns-mnemonic")


def nonstandard_observations(ctx, rng):
    """Outside the quantifier, recorded only: a 21-word text with 12 zero padding bits and a valid checksum."""
    from buidl.shamir import Share

    w = ref.words()
    good = ref.encode_share(rng.getrandbits(15), 0, 0, 0, 1, 1, 0, 1, rand_bytes(rng, 16))
    data = good[:4] + [0] + good[4:-3]
    idx = data + ref.rs1024_create_checksum(ref.CS_PLAIN, data)
    outcome(Share.parse, " ".join(w[i] for i in idx))


def run_repo_tests(ctx):
    import io
    import unittest

    for name in ("buidl.test.test_shamir",):
        try:
            suite = unittest.defaultTestLoader.loadTestsFromName(name)
        except Exception as e:  # noqa: BLE001
            ctx.note("repotests:load-error:" + name, repr(e))
            continue
        res = unittest.TextTestRunner(stream=io.StringIO(), verbosity=0).run(suite)
        ctx.count("repotests:ran", res.testsRun)
        ctx.count("repotests:failed", len(res.failures) + len(res.errors))
        if res.failures or res.errors:
            ctx.note("repotests:first-failure:" + name, (res.failures + res.errors)[0][1][-600:])


def prepare(ctx):
    try:
        ref.words()
        ref39.words()
    except (ref.WordlistMismatch, ref39.WordlistMismatch) as e:
        ctx.monitor("wordlist")
        ctx.violation("wordlist-file-not-canonical", str(e), {"op": "wordlist"})
        ctx.case({"op": "wordlist"})
        return False
    ref.selfcheck()
    ref39.selfcheck()
    install()
    install_entropy_stubs(ctx)
    return True


def check_wordlist(ctx):
    from buidl.shamir import SLIP39

    ctx.monitor("wordlist")
    words = ref.words()
    if list(SLIP39.words) != words:
        ctx.violation("wordlist-differs-from-pinned", "SLIP39.words is not the pinned list", {"op": "wordlist"})
    for i, w in enumerate(words):
        for t, want in ((w, i), (w[:4], i), (w[:3], ref.resolve(w[:3])), (w[:5], ref.resolve(w[:5]))):
            ctx.monitor("wordlist")
            o = outcome(SLIP39.__getitem__, t)
            if (o[1] if o[0] == "ok" else None) != want:
                ctx.violation("wordlist-lookup-wrong", f"token {t!r} -> {o!r}, expected {want}", {"op": "wordlist"})
    ctx.exhaustive.append("SLIP39 word list: every word, its 3-, 4- and 5-letter prefixes")


def run_shard(desc, ctx):
    if not prepare(ctx):
        return
    snap = table_snapshot()
    if desc["name"] == "repotests":
        run_repo_tests(ctx)
        check_tables_unchanged(ctx, snap)
        return
    idx, n = desc["idx"], desc["n"]
    c = COUNTS[ctx.tier]
    rng = ctx.rng()
    check_tables(ctx, idx, n)
    if idx == 1 % n:
        check_wordlist(ctx)
    if idx == 0:
        official_vectors(ctx)
        nonstandard_observations(ctx, rng)
    pairs = QUICK_PAIRS if ctx.tier == "quick" else ALL_PAIRS
    mine = [p for i, p in enumerate(pairs) if i % n == idx]
    jn = idx  # job counter: drives the passphrase / exponent / size cycles, offset per shard
    pool = []
    for rep in range(c["reps"]):
        for k, nn in mine:
            for size in (16, 32):
                e = jn % 3
                try:
                    job(ctx, rng, k, nn, size, e, jn, c)
                except ref.Slip39Error as err:
                    # the driver could not even decode what the library produced (the generate_shares contract has
                    # recorded that); the rest of this job is skipped, the gates decide whether enough was seen
                    ctx.count("driver:job-aborted:library-share-undecodable:" + err.reason)
                jn += 1
                if ctx.out_of_time():
                    return
    # a pool of library shares of both lengths for the corruption sweep
    for size in (16, 32):
        for k, nn in ((2, 3), (3, 5)):
            sh = lib_generate(ctx, ref39.entropy_to_mnemonic(rand_bytes(rng, size)), k, nn, b"", 0)
            pool += sh or []
    pool = [s for s in pool if all(ref.resolve(t) is not None for t in s.split())]
    if pool:
        corruption_sweep(ctx, rng, c, pool)
    if ctx.out_of_time():
        return
    crypt_direct(ctx, rng, c["crypt"])
    sharing_direct(ctx, rng, c["direct"], idx, n)
    codec(ctx, rng, c["codec"])
    check_tables_unchanged(ctx, snap)


def replay(case, ctx):
    if not prepare(ctx):
        return
    from buidl import shamir
    from buidl.shamir import Share, ShareSet

    op = case.get("op")
    if op == "recover":
        o = outcome(ShareSet.recover_mnemonic, list(case["shares"]), case["passphrase"])
        tag = case.get("tag") or ""
        negative = any(tag.startswith(p) or (":" + p) in tag for p in ("mixed", "relabel", "corrupt", "size=k-1", "size=1", "size<k", "empty", "duplicate"))
        if negative and o[0] == "ok":
            ctx.monitor("negative-set-returns-nothing")
            ctx.violation("negative-set-returns-mnemonic", f"{tag}: returned {o[1]!r}", case)
    elif op == "parse":
        o = outcome(Share.parse, case["mnemonic"])
        if (case.get("tag") or "").startswith("corrupt") and o[0] == "ok":
            ctx.monitor("corrupted-share-not-accepted")
            ctx.violation("corrupted-share-accepted", "Share.parse accepted the corrupted text", case)
    elif op == "generate":
        ENT.reset(case.get("draws"))
        outcome(ShareSet.generate_shares, case["mnemonic"], case["k"], case["n"], case["passphrase"], case["exponent"])
    elif op == "split":
        ENT.reset(case.get("draws"))
        outcome(ShareSet.split_secret, case["secret"], case["k"], case["n"])
    elif op == "recover_secret":
        outcome(ShareSet.recover_secret, [tuple(p) for p in case["points"]])
    elif op == "interpolate":
        outcome(ShareSet.interpolate, case["x"], [tuple(p) for p in case["points"]])
    elif op == "encrypt":
        outcome(ShareSet.encrypt, case["payload"], case["id"], case["exponent"], case["passphrase"])
    elif op == "decrypt":
        holder = ShareSet([Share(len(case["payload"]) * 8, case["id"], case["exponent"], 0, 1, 1, 0, 1, 0)])
        outcome(holder.decrypt, case["payload"], case["passphrase"])
    elif op == "share-mnemonic":
        f = case["fields"]
        o = outcome(lambda: Share(len(case["value"]) * 8, f["id"], f["exponent"], f["group_index"], f["group_threshold"], f["group_count"], f["member_index"], f["member_threshold"], int.from_bytes(case["value"], "big")))
        if o[0] == "ok":
            t = outcome(o[1].mnemonic)
            if t[0] == "ok":
                outcome(Share.parse, t[1])
    elif op == "polymod":
        outcome(shamir.rs1024_polymod, list(case["values"]))
    elif op == "verify":
        outcome(shamir.rs1024_verify_checksum, case["cs"], list(case["data"]))
    elif op == "create":
        outcome(shamir.rs1024_create_checksum, case["cs"], list(case["data"]))
    elif op == "tables":
        check_tables(ctx, 0, 1)
    elif op == "wordlist":
        check_wordlist(ctx)
