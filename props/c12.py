"""C12 - taproot output keys commit to the script tree; every leaf has a working control block.

Monitors (contracts on the real functions, see vmon.contracts):
  TapLeaf.hash                      == H_TapLeaf(version || compact_size(len) || script)
  TapBranch.hash                    == reference Merkle root of the same tree (lexicographic siblings)
  TapBranch.path_hashes             folding the leaf hash along the path gives the reference root
  TapBranch/TapLeaf.control_block   version, parity, internal key, path == reference (parity of reference Q)
  ControlBlock.serialize / parse    bytes == reference layout; parse(bytes) gives the reference fields
  ControlBlock.merkle_root / external_pubkey   == reference fold / reference commitment (point and parity)
  S256Point.tweak / tweaked_key     == hash_TapTweak(x(P) || root);  Q == lift_x(x(P)) + t*G (incl. Y)
  PrivateKey.tweaked_key            secret == taproot_tweak_seckey;  secret*G == Q
Boundary monitors in the driver: root hash invariant under sibling swaps; control block round trip
reproduces key and parity for every leaf; tamper catalogue on control block / leaf script bytes
(an acceptance is the refuting event; differential against ref.taproot.verify_commitment);
TapBranch._leaves memo == fresh traversal at case ends.
"""
from ref import ec
from ref import taproot as rt
from vmon import contracts
from vmon.core import outcome

PROPERTY_ID = "C12"
RULE = (
    "cases = (internal key, script tree) pairs: every leaf's control block is built, serialised, parsed and "
    "evaluated by the real functions; (control block bytes, leaf script bytes) pairs of the tamper catalogue; each "
    "hash/tweak/control-block call is decided by a contract comparing with the reference BIP341 implementation "
    "(ref/taproot.py, self-checked on the BIP341 wallet vectors); for tampered inputs an acceptance (key and "
    "parity still reproduced) is the refuting event; distinct = distinct concrete inputs by hash; non-trivial = "
    "reference value computed and compared, or (negative) the altered bytes differ from the original"
)
ASSUMPTIONS = [
    "a tweak t >= n or an output key at infinity (probability < 2^-127) is unobservable and not claimed",
    "leaf scripts avoid 75-byte pushes and pushes over 520 bytes: Script.raw_serialize refuses them (that is C04's "
    "serialisation finding, not a commitment property)",
    "leaf versions are even bytes other than 0x50 (BIP341); odd versions are outside the statement",
]

MAX_LEAVES = {"quick": 5, "thorough": 8}
TAMPERS = [
    "cb-parity-bit", "cb-version-bits", "cb-internal-key", "cb-path-hash", "cb-hash-dropped", "cb-hash-duplicated",
    "cb-hash-appended", "cb-truncated", "cb-junk-appended", "cb-hashes-swapped", "script-byte", "script-appended", "script-truncated",
    "script-push-reencoded", "other-leaf-script",
]


def _shape_gate(max_leaves):
    out = []
    for n in range(1, max_leaves + 1):
        out += ["shape:" + rt.shape_key(s) for s in rt.all_shapes(n)]
    return out


GATES = {
    "object-histories": ["class:same-script-two-versions", "edit:leaf-version", "edit:leaf-script"],
    "monitors-ran": [
        "TapLeaf.hash", "TapBranch.hash", "TapBranch.path_hashes", "TapBranch.control_block", "TapLeaf.control_block",
        "ControlBlock.serialize", "ControlBlock.parse", "ControlBlock.merkle_root", "ControlBlock.external_pubkey",
        "S256Point.tweak", "S256Point.tweaked_key", "PrivateKey.tweaked_key",
    ],
    "boundary-monitors-ran": ["swap-invariance", "control-block-roundtrip", "tamper-differential", "memo-leaves"],
    "parities": ["parity:internal-%d:output-%d" % (a, b) for a in (0, 1) for b in (0, 1)] + ["privparity:internal-%d:output-%d" % (a, b) for a in (0, 1) for b in (0, 1)],
    "path-depths": ["pathdepth:%d" % d for d in range(0, 8)],
    "tree-shapes": {"quick": _shape_gate(5) + ["shape:" + rt.shape_key(s) for s in (rt.all_shapes(8)[0], rt.all_shapes(8)[-1])], "thorough": _shape_gate(8)},
    "tamper-classes": ["tamper:" + t for t in TAMPERS],
    "tamper-rejections": ["tamper-rejected:" + t for t in TAMPERS if t != "script-push-reencoded"],
    "script-lengths": ["scriptlen:0", "scriptlen:1", "scriptlen:<253", "scriptlen:253", "scriptlen:>253", "scriptlen:>=520"],
    "leaf-versions": ["leafversion:c0", "leafversion:other"],
    "memo": ["memo:populated-checked"],
    "no-tree": ["tweak:empty-merkle-root"],
    "recreated-leaf-queries": ["control-block:asked-with-recreated-equal-leaf", "control-block:asked-with-recreated-equal-leaf:single-leaf-tree"],
    "repository-tests-under-contracts": {"quick": [], "thorough": ["repotests:run"]},
}

_state = {"branches": []}


class _Outside(Exception):
    pass


def anchors():
    from buidl import pecc, taproot

    return [
        taproot.TapLeaf.hash, taproot.TapBranch.hash, taproot.TapBranch.leaves, taproot.TapBranch.path_hashes,
        taproot.TapBranch.control_block, taproot.TapLeaf.control_block, taproot.ControlBlock.merkle_root,
        taproot.ControlBlock.external_pubkey, taproot.ControlBlock.serialize, taproot.ControlBlock.parse,
        pecc.S256Point.tweak, pecc.S256Point.tweaked_key, pecc.S256Point.even_point, pecc.PrivateKey.tweaked_key,
        pecc.PrivateKey.even_secret,
    ]


# ---- library object -> reference value ------------------------------------------------------------
def _pt(point):
    if point is None or point.x is None:
        return None
    return (point.x.num, point.y.num)


def _script_raw(script):
    raw = getattr(script, "raw", None)
    if raw:
        return bytes(raw)
    for c in script.commands:
        if not isinstance(c, int) and (len(c) == 75 or len(c) > 520):
            raise _Outside("push length the library serialiser refuses")
        if isinstance(c, int) and not 0 <= c <= 255:
            raise _Outside("not an opcode")
    return rt.script_bytes(script.commands)


def _ref_leaf(leaf):
    v = leaf.tapleaf_version
    if not isinstance(v, int) or not 0 <= v <= 254 or v & 1:
        raise _Outside("leaf version outside the statement")
    return (v, _script_raw(leaf.tap_script))


def _ref_tree(node):
    from buidl.taproot import TapLeaf

    if isinstance(node, TapLeaf):
        return _ref_leaf(node)
    return [_ref_tree(node.left), _ref_tree(node.right)]


def _fold(leaf_hash, path):
    k = leaf_hash
    for h in path:
        k = rt.tapbranch_hash(k, h)
    return k


def _tree_case(tree):
    def rec(t):
        return [t[0], t[1]] if rt.is_leaf(t) else {"l": rec(t[0]), "r": rec(t[1])}

    return rec(tree)


def _tree_uncase(c):
    if isinstance(c, dict):
        return [_tree_uncase(c["l"]), _tree_uncase(c["r"])]
    return (c[0], c[1])


def _arg(args, kwargs, pos, name, default=None):
    if len(args) > pos:
        return args[pos]
    return kwargs.get(name, default)


# ---- contracts -----------------------------------------------------------------------------------
def post_leaf_hash(args, kwargs, pre, out):
    ctx = contracts.ctx()
    try:
        v, raw = _ref_leaf(args[0])
    except _Outside:
        return NotImplemented
    case = {"op": "leaf-hash", "version": v, "script": raw}
    if out[0] == "exc":
        ctx.violation("leaf-hash-raises", f"TapLeaf.hash raised {out[1]!r}", case)
        return
    exp = rt.tapleaf_hash(raw, v)
    if out[1] != exp:
        ctx.violation("leaf-hash-wrong:" + ("script>=253" if len(raw) >= 253 else "script<253"), f"got {out[1].hex()} expected {exp.hex()}", case)
    n = len(raw)
    ctx.count("scriptlen:0" if n == 0 else "scriptlen:1" if n == 1 else "scriptlen:<253" if n < 253 else "scriptlen:253" if n == 253 else "scriptlen:>253")
    if n >= 520:
        ctx.count("scriptlen:>=520")
    ctx.count("leafversion:c0" if v == 0xC0 else "leafversion:other")
    ctx.case(case)


def post_branch_hash(args, kwargs, pre, out):
    ctx = contracts.ctx()
    try:
        tree = _ref_tree(args[0])
    except _Outside:
        return NotImplemented
    case = {"op": "branch-hash", "tree": _tree_case(tree)}
    if out[0] == "exc":
        ctx.violation("branch-hash-raises", f"TapBranch.hash raised {out[1]!r}", case)
        return
    exp = rt.merkle_root(tree)
    if out[1] != exp:
        ctx.violation("branch-hash-wrong", f"got {out[1].hex()} expected {exp.hex()}", case)
    ctx.case(case)


def post_path_hashes(args, kwargs, pre, out):
    ctx = contracts.ctx()
    self = args[0]
    leaf = _arg(args, kwargs, 1, "leaf")
    try:
        tree = _ref_tree(self)
        rleaf = _ref_leaf(leaf)
    except (_Outside, AttributeError):
        return NotImplemented
    lp = rt.leaves_with_paths(tree)
    member = any(lf == rleaf for lf, _ in lp)
    case = {"op": "path-hashes", "tree": _tree_case(tree), "leaf": [rleaf[0], rleaf[1]]}
    if out[0] == "exc":
        ctx.violation("path-hashes-raises", f"path_hashes raised {out[1]!r}", case)
        return
    if not member:
        if out[1] is not None:
            ctx.violation("path-for-foreign-leaf", "a path was returned for a leaf that is not in the tree", case)
        ctx.case(case)
        return
    if out[1] is None:
        ctx.violation("path-missing-for-member-leaf", "no path for a leaf of the tree", case)
        return
    root = rt.merkle_root(tree)
    if any(not isinstance(h, (bytes, bytearray)) or len(h) != 32 for h in out[1]) or _fold(rt.tapleaf_hash(rleaf[1], rleaf[0]), out[1]) != root:
        ctx.violation("path-does-not-fold-to-root", "folding the leaf hash along the returned path does not give the root", case)
    elif sum(1 for lf, _ in lp if lf == rleaf) == 1:
        exp = [p for lf, p in lp if lf == rleaf][0]
        if list(out[1]) != exp:
            ctx.violation("path-differs-from-reference", "path differs from the reference path of that leaf", case)
    ctx.case(case)


def _post_control_block(args, kwargs, pre, out, owner):
    ctx = contracts.ctx()
    self = args[0]
    internal = _arg(args, kwargs, 1, "internal_pubkey")
    leaf = _arg(args, kwargs, 2, "leaf" if owner == "branch" else "tap_leaf")
    if owner == "leaf" and leaf is None:
        leaf = self
    try:
        tree = _ref_tree(self)
        rleaf = _ref_leaf(leaf)
    except (_Outside, AttributeError):
        return NotImplemented
    ipt = _pt(internal)
    if ipt is None:
        return NotImplemented
    lp = rt.leaves_with_paths(tree)
    member = any(lf == rleaf for lf, _ in lp)
    case = {"op": "control-block", "tree": _tree_case(tree), "leaf": [rleaf[0], rleaf[1]], "internal": ec.sec(ipt)}
    if out[0] == "exc":
        ctx.violation("control-block-raises", f"control_block raised {out[1]!r}", case)
        return
    if not member:
        if out[1] is not None:
            ctx.violation("control-block-for-foreign-leaf", "a control block was returned for a leaf that is not in the tree", case)
        ctx.case(case)
        return
    cb = out[1]
    if cb is None:
        ctx.violation("control-block-missing-for-member-leaf", "None for a leaf of the tree", case)
        return
    root = rt.merkle_root(tree)
    try:
        q, parity = rt.output_key(ec.b32(ipt[0]), root)
    except ValueError:
        return NotImplemented
    if cb.tapleaf_version != rleaf[0]:
        ctx.violation("control-block-leaf-version", f"version {cb.tapleaf_version} expected {rleaf[0]}", case)
    if cb.parity != parity:
        ctx.violation("control-block-parity", f"parity {cb.parity} expected {parity} (output key Y parity)", case)
    cpt = _pt(cb.internal_pubkey)
    if cpt is None or cpt[0] != ipt[0]:
        ctx.violation("control-block-internal-key", "internal key differs", case)
    hashes = list(cb.hashes) if cb.hashes is not None else None
    if hashes is None or _fold(rt.tapleaf_hash(rleaf[1], rleaf[0]), hashes) != root:
        ctx.violation("control-block-path-does-not-fold-to-root", "control block path does not lead to the root", case)
    else:
        raw = rt.control_block(rleaf[0], cb.parity & 1, ec.b32(ipt[0]), hashes)
        if cb.parity == parity and not rt.verify_commitment(raw, rleaf[1], ec.b32(q[0])):
            ctx.violation("control-block-does-not-commit", "reference commitment check fails for the built block", case)
    ctx.count("pathdepth:%d" % len(hashes or []))
    ctx.case(case)


def post_branch_control_block(args, kwargs, pre, out):
    return _post_control_block(args, kwargs, pre, out, "branch")


def post_leaf_control_block(args, kwargs, pre, out):
    return _post_control_block(args, kwargs, pre, out, "leaf")


def _cb_fields(cb):
    v, p = cb.tapleaf_version, cb.parity
    ipt = _pt(cb.internal_pubkey)
    if not isinstance(v, int) or v & 1 or not 0 <= v <= 254 or p not in (0, 1) or ipt is None:
        raise _Outside("control block fields outside the statement")
    hashes = list(cb.hashes)
    if any(not isinstance(h, (bytes, bytearray)) or len(h) != 32 for h in hashes) or len(hashes) > 128:
        raise _Outside("path elements are not 32-byte hashes")
    return v, p, ec.b32(ipt[0]), hashes


def post_cb_serialize(args, kwargs, pre, out):
    ctx = contracts.ctx()
    try:
        v, p, ix, hashes = _cb_fields(args[0])
    except (_Outside, AttributeError, TypeError):
        return NotImplemented
    case = {"op": "cb-serialize", "version": v, "parity": p, "internal": ix, "hashes": hashes}
    if out[0] == "exc":
        ctx.violation("control-block-serialize-raises", f"serialize raised {out[1]!r}", case)
        return
    exp = rt.control_block(v, p, ix, hashes)
    if out[1] != exp:
        mech = "control-block-serialisation:parity-bit" if out[1][1:] == exp[1:] else "control-block-serialisation:layout"
        ctx.violation(mech, f"got {out[1].hex()} expected {exp.hex()}", case)
    ctx.case(case)


def post_cb_parse(args, kwargs, pre, out):
    ctx = contracts.ctx()
    b = _arg(args, kwargs, 1, "b")
    if not isinstance(b, (bytes, bytearray)):
        return NotImplemented
    try:
        c = rt.parse_control_block(b)
    except ValueError:
        ctx.count("observed:parse-of-malformed-length:" + ("accepted" if out[0] == "ok" else "refused"))
        return NotImplemented
    ip = ec.lift_x(int.from_bytes(c["internal"], "big"))
    if ip is None:
        ctx.count("observed:parse-with-off-curve-internal-key:" + ("accepted" if out[0] == "ok" else "refused"))
        return NotImplemented
    case = {"op": "cb-parse", "cb": bytes(b)}
    if out[0] == "exc":
        ctx.violation("control-block-parse-refuses-valid-block", f"parse raised {out[1]!r}", case)
        return
    cb = out[1]
    if cb.tapleaf_version != c["leaf_version"] or cb.parity != c["parity"]:
        ctx.violation("control-block-parse:first-byte", f"version/parity {cb.tapleaf_version}/{cb.parity} expected {c['leaf_version']}/{c['parity']}", case)
    if _pt(cb.internal_pubkey) != ip:
        ctx.violation("control-block-parse:internal-key", "internal key is not the even-Y lift of the 32 bytes", case)
    if [bytes(h) for h in cb.hashes] != c["path"]:
        ctx.violation("control-block-parse:path", "path hashes differ", case)
    ctx.case(case)


def post_cb_merkle_root(args, kwargs, pre, out):
    ctx = contracts.ctx()
    script = _arg(args, kwargs, 1, "tap_script")
    try:
        v, p, ix, hashes = _cb_fields(args[0])
        raw = _script_raw(script)
    except (_Outside, AttributeError, TypeError):
        return NotImplemented
    case = {"op": "cb-merkle-root", "version": v, "parity": p, "internal": ix, "hashes": hashes, "script": raw}
    if out[0] == "exc":
        ctx.violation("control-block-merkle-root-raises", f"merkle_root raised {out[1]!r}", case)
        return
    exp = _fold(rt.tapleaf_hash(raw, v), hashes)
    if out[1] != exp:
        ctx.violation("control-block-merkle-root-wrong", f"got {out[1].hex()} expected {exp.hex()}", case)
    ctx.case(case)


def post_cb_external_pubkey(args, kwargs, pre, out):
    ctx = contracts.ctx()
    script = _arg(args, kwargs, 1, "tap_script")
    try:
        v, p, ix, hashes = _cb_fields(args[0])
        raw = _script_raw(script)
    except (_Outside, AttributeError, TypeError):
        return NotImplemented
    got = rt.commitment(rt.control_block(v, p, ix, hashes), raw)
    if got is None:
        return NotImplemented
    case = {"op": "cb-external-pubkey", "version": v, "parity": p, "internal": ix, "hashes": hashes, "script": raw}
    if out[0] == "exc":
        ctx.violation("control-block-external-pubkey-raises", f"external_pubkey raised {out[1]!r}", case)
        return
    pt = _pt(out[1])
    if pt is None or ec.b32(pt[0]) != got[0] or (pt[1] & 1) != got[1]:
        ctx.violation("control-block-external-pubkey-wrong", "external key (x, parity) differs from the reference commitment", case)
    ctx.case(case)


def post_tweak(args, kwargs, pre, out):
    ctx = contracts.ctx()
    self = args[0]
    root = _arg(args, kwargs, 1, "merkle_root", b"")
    pt = _pt(self)
    if pt is None or not isinstance(root, (bytes, bytearray)) or len(root) not in (0, 32):
        return NotImplemented
    case = {"op": "tweak", "point": ec.sec(pt), "root": bytes(root)}
    if out[0] == "exc":
        ctx.violation("tweak-raises", f"tweak raised {out[1]!r}", case)
        return
    exp = rt.taptweak(ec.b32(pt[0]), bytes(root))
    if out[1] != exp:
        ctx.violation("taptweak-wrong", f"got {out[1].hex()} expected {exp.hex()}", case)
    if len(root) == 0:
        ctx.count("tweak:empty-merkle-root")
    ctx.case(case)


def post_tweaked_key(args, kwargs, pre, out):
    ctx = contracts.ctx()
    self = args[0]
    root = _arg(args, kwargs, 1, "merkle_root", b"")
    tweak = _arg(args, kwargs, 2, "tweak")
    pt = _pt(self)
    if pt is None:
        return NotImplemented
    if tweak is None:
        if not isinstance(root, (bytes, bytearray)) or len(root) not in (0, 32):
            return NotImplemented
        t = rt.taptweak(ec.b32(pt[0]), bytes(root))
    elif isinstance(tweak, (bytes, bytearray)) and len(tweak) == 32:
        t = bytes(tweak)
    else:
        return NotImplemented
    ti = int.from_bytes(t, "big")
    if ti >= ec.N:
        return NotImplemented
    exp = ec.add(ec.lift_x(pt[0]), ec.mul(ti))
    if exp is ec.INF:
        return NotImplemented
    case = {"op": "tweaked-key", "point": ec.sec(pt), "root": bytes(root) if isinstance(root, (bytes, bytearray)) else None, "tweak": tweak}
    if out[0] == "exc":
        ctx.violation("tweaked-key-raises", f"tweaked_key raised {out[1]!r}", case)
        return
    got = _pt(out[1])
    if got != exp:
        if got is not None and got[0] == ec.add(pt, ec.mul(ti))[0] and pt[1] & 1:
            mech = "output-key-wrong:odd-internal-key-not-normalised"
        elif got is not None and got[0] == exp[0]:
            mech = "output-key-wrong:parity"
        else:
            mech = "output-key-wrong"
        ctx.violation(mech, f"got {got} expected {exp}", case)
    ctx.count("parity:internal-%d:output-%d" % (pt[1] & 1, exp[1] & 1))
    ctx.case(case)


def post_priv_tweaked_key(args, kwargs, pre, out):
    ctx = contracts.ctx()
    self = args[0]
    root = _arg(args, kwargs, 1, "merkle_root", b"")
    d = self.secret
    if not isinstance(root, (bytes, bytearray)) or len(root) not in (0, 32) or not 1 <= d < ec.N:
        return NotImplemented
    case = {"op": "priv-tweaked-key", "secret": d, "root": bytes(root)}
    try:
        exp = rt.tweak_seckey(d, bytes(root))
        pub = ec.mul(d)
        q, parity = rt.output_key(ec.b32(pub[0]), bytes(root))
    except ValueError:
        return NotImplemented
    if exp == 0:
        return NotImplemented
    if out[0] == "exc":
        ctx.violation("priv-tweaked-key-raises", f"PrivateKey.tweaked_key raised {out[1]!r}", case)
        return
    if out[1].secret != exp:
        ctx.violation("priv-tweak-wrong:" + ("odd-internal-key" if pub[1] & 1 else "even-internal-key"), f"secret {out[1].secret:x} expected {exp:x}", case)
    if _pt(out[1].point) != q:
        ctx.violation("tweaked-private-key-is-not-dlog-of-output-key", "secret*G differs from the reference output key", case)
    ctx.count("privparity:internal-%d:output-%d" % (pub[1] & 1, parity))
    ctx.case(case)


def install():
    from buidl import pecc, taproot
    import buidl.script  # noqa: F401
    import buidl.tx  # noqa: F401
    import buidl.witness  # noqa: F401

    contracts.install(taproot.TapLeaf, "hash", post_leaf_hash)
    contracts.install(taproot.TapBranch, "hash", post_branch_hash)
    contracts.install(taproot.TapBranch, "path_hashes", post_path_hashes)
    contracts.install(taproot.TapBranch, "control_block", post_branch_control_block)
    contracts.install(taproot.TapLeaf, "control_block", post_leaf_control_block)
    contracts.install(taproot.ControlBlock, "serialize", post_cb_serialize)
    contracts.install(taproot.ControlBlock, "parse", post_cb_parse)
    contracts.install(taproot.ControlBlock, "merkle_root", post_cb_merkle_root)
    contracts.install(taproot.ControlBlock, "external_pubkey", post_cb_external_pubkey)
    contracts.install(pecc.S256Point, "tweak", post_tweak)
    contracts.install(pecc.S256Point, "tweaked_key", post_tweaked_key)
    contracts.install(pecc.PrivateKey, "tweaked_key", post_priv_tweaked_key)


# ---- memo invariant -------------------------------------------------------------------------------
def _fresh_leaves(node):
    from buidl.taproot import TapLeaf

    if isinstance(node, TapLeaf):
        return [node]
    return _fresh_leaves(node.left) + _fresh_leaves(node.right)


def check_memo(ctx):
    for br in _state["branches"]:
        memo = getattr(br, "_leaves", None)
        if memo is None:
            ctx.count("memo:empty")
            continue
        ctx.monitor("memo-leaves")
        ctx.count("memo:populated-checked")
        fresh = _fresh_leaves(br)
        if len(memo) != len(fresh) or any(a is not b for a, b in zip(memo, fresh)):
            ctx.violation("memo-leaves-stale", "TapBranch._leaves differs from a fresh traversal", {"op": "memo", "tree": _tree_case(_ref_tree(br))})
    _state["branches"] = []


# ---- workload generation ----------------------------------------------------------------------------
SCRIPT_LENGTHS = [1, 2, 34, 35, 74, 100, 200, 252, 253, 254, 255, 256, 300, 400, 520, 523, 600]
LEAF_VERSIONS = [0xC0, 0xC0, 0xC0, 0xC2, 0xFA, 0x66, 0x02, 0xFE, 0x00]


def _gen_commands(rng, target_len, uniq):
    """A command list whose serialisation has exactly target_len bytes (pushes avoid the lengths the
    library serialiser refuses); `uniq` (bytes) makes sibling leaves distinct when it fits."""
    if target_len == 0:
        return []
    if target_len == 1:
        return [rng.choice([0x51, 0x52, 0xAC, 0x87, 0x00, 0x75])]
    cmds = []
    left = target_len
    first = True
    while left > 0:
        if left == 1:
            cmds.append(rng.choice([0x51, 0xAC, 0x75, 0xBA, 0x87, 0xAD]))
            left -= 1
            continue
        r = rng.random()
        if left >= 260 and r < 0.4:
            n = min(left - 3, rng.choice([256, 300, 519, 520]))
            if n < 256:
                n = 256
            data, cost = n, n + 3
        elif left >= 79 and r < 0.6:
            n = min(left - 2, rng.choice([76, 77, 100, 255]))
            if n < 76:
                n = 76
            data, cost = n, n + 2
        else:
            n = min(left - 1, rng.choice([1, 2, 20, 32, 33, 64, 74]))
            data, cost = n, n + 1
        if cost > left or (left - cost) < 0:
            cmds.append(0x61)
            left -= 1
            continue
        body = rng.randbytes(data)
        if first and data >= len(uniq):
            body = uniq + body[len(uniq):]
            first = False
        cmds.append(body)
        left -= cost
        if left > 0 and rng.random() < 0.5:
            cmds.append(rng.choice([0x75, 0xAC, 0xBA, 0x87, 0x51, 0x6D]))
            left -= 1
    return cmds


def _gen_leaf(rng, serial, length=None, version=None):
    length = length if length is not None else rng.choice(SCRIPT_LENGTHS)
    version = version if version is not None else rng.choice(LEAF_VERSIONS)
    for _ in range(20):
        cmds = _gen_commands(rng, length, serial.to_bytes(2, "big"))
        raw = rt.script_bytes(cmds)
        if len(raw) == length and all(isinstance(c, int) or len(c) not in (0, 75) for c in cmds):
            return (version, raw, cmds)
    cmds = [0x51] * length
    return (version, rt.script_bytes(cmds), cmds)


def _build_lib_tree(shape, leaves):
    """leaves: [(version, raw, cmds)] -> (library tree, list of library leaves, reference tree)."""
    from buidl.taproot import TapBranch, TapLeaf, TapScript

    it = iter(leaves)
    libleaves = []

    def rec(node):
        if node is None:
            v, raw, cmds = next(it)
            lf = TapLeaf(TapScript(list(cmds)), v)
            libleaves.append(lf)
            return lf, (v, raw)
        (l, rl), (r, rr) = rec(node[0]), rec(node[1])
        br = TapBranch(l, r)
        _state["branches"].append(br)
        return br, [rl, rr]

    lib, ref = rec(shape)
    return lib, libleaves, ref


def _swap_lib(node, rng):
    from buidl.taproot import TapBranch, TapLeaf

    if isinstance(node, TapLeaf):
        return node, 0
    (l, nl), (r, nr) = _swap_lib(node.left, rng), _swap_lib(node.right, rng)
    if rng.random() < 0.6:
        return TapBranch(r, l), nl + nr + 1
    return TapBranch(l, r), nl + nr


def rng_for_catalogue(seed):
    import random

    return random.Random("C12-catalogue-%d" % seed)


def catalogue(tier, seed):
    """Deterministic list of tree shapes for the tier (index -> shard = index % 16)."""
    shapes = []
    if tier == "quick":
        for n in range(1, 6):
            shapes += rt.all_shapes(n)
        shapes = shapes + shapes[2:] + shapes[2:]  # every non-trivial shape three times (different keys / scripts)
        pick = rng_for_catalogue(seed)
        for n in (6, 7, 8):
            alls = rt.all_shapes(n)
            shapes += [alls[0], alls[-1], alls[len(alls) // 2], alls[len(alls) // 3]] + [alls[pick.randrange(len(alls))] for _ in range(4)]
        shapes += [None, [None, None]] * 4
    else:
        for n in range(1, 9):
            shapes += rt.all_shapes(n)
        extra = []
        for n in range(1, 6):
            extra += rt.all_shapes(n)
        shapes += extra + [None] * 31  # single-leaf trees (33-byte control blocks) with every script-length class
    return shapes


def shards(tier, seed):
    # 16 processes in both tiers: thorough = the repository's test module under the contracts + 15 workload shards
    n = 16 if tier == "quick" else 15
    out = [{"name": "trees", "idx": i, "n": n, "budget_s": 900 if tier == "quick" else 10800, "hard_timeout_s": 1500 if tier == "quick" else 14000} for i in range(n)]
    if tier == "thorough":
        out.insert(0, {"name": "repotests", "idx": 0, "n": 1, "budget_s": 10800, "hard_timeout_s": 14000, "modules": ["buidl.test.test_taproot"]})
    return out


# ---- the commitment decision the library makes for (control block bytes, script bytes) -----------------
def lib_commit(cb_bytes, script_raw, q_xonly):
    """Replays what the P2TR script-path rule does with the library's own functions:
    parse the control block, parse the witness script, recompute the external key; returns
    ('reject', why) | ('accept', None)."""
    from buidl.taproot import ControlBlock
    from buidl.witness import Witness

    o = outcome(ControlBlock.parse, cb_bytes)
    if o[0] != "ok":
        return ("reject", "exc")
    cb = o[1]
    o = outcome(Witness([script_raw, cb_bytes]).tap_script)
    if o[0] != "ok":
        return ("reject", "exc")
    o = outcome(cb.external_pubkey, o[1])
    if o[0] != "ok":
        return ("reject", "exc")
    pt = o[1]
    if pt.x is None:
        return ("reject", "infinity")
    if pt.xonly() != q_xonly:
        return ("reject", "key")
    if pt.parity != cb.parity:
        return ("reject", "parity")
    return ("accept", None)


def tamper_one(ctx, cls, cb_bytes, script_raw, q_xonly, orig):
    """One negative case.  `orig` = (cb, script) of the untampered pair."""
    if (cb_bytes, script_raw) == orig:
        ctx.count("tamper-noop:" + cls)
        return
    ctx.count("tamper:" + cls)
    ctx.monitor("tamper-differential")
    case = {"op": "tamper", "class": cls, "cb": cb_bytes, "script": script_raw, "q": q_xonly, "orig_cb": orig[0], "orig_script": orig[1]}
    verdict, why = lib_commit(cb_bytes, script_raw, q_xonly)
    expect = rt.verify_commitment(cb_bytes, script_raw, q_xonly)
    if expect:
        ctx.count("observed:reference-accepts-tampered-input")
    if verdict == "accept" and not expect:
        ctx.violation("tampered-commitment-accepted:" + cls, f"altered ({cls}) control block / leaf script still reproduces the output key and parity", case)
    elif verdict == "reject":
        ctx.count("tamper-rejected:" + cls)
        if why == "exc":
            ctx.rejected_by_exception += 1
        if expect:
            ctx.violation("valid-commitment-rejected:" + cls, "the reference accepts this pair, the library does not", case)
    ctx.case(case)


def tamper_catalogue(ctx, rng, cb_bytes, script_raw, cmds, q_xonly, other_script, every_byte):
    orig = (cb_bytes, script_raw)
    m = (len(cb_bytes) - 33) // 32

    def alt(b, pos, how):
        x = b[pos]
        y = (x ^ (1 << rng.randrange(8))) if how == 0 else (x ^ rng.randrange(1, 256))
        return b[:pos] + bytes([y]) + b[pos + 1:]

    # byte 0: the parity bit and each version bit
    tamper_one(ctx, "cb-parity-bit", bytes([cb_bytes[0] ^ 1]) + cb_bytes[1:], script_raw, q_xonly, orig)
    bits = range(1, 8) if every_byte else [rng.randrange(1, 8), rng.randrange(1, 8)]
    for bit in bits:
        tamper_one(ctx, "cb-version-bits", bytes([cb_bytes[0] ^ (1 << bit)]) + cb_bytes[1:], script_raw, q_xonly, orig)
    if every_byte:
        positions = list(range(1, len(cb_bytes)))
    else:
        positions = [1, 32, rng.randrange(1, 33), rng.randrange(1, 33)]
        for i in range(m):
            positions += [33 + 32 * i, 64 + 32 * i]
        positions += [rng.randrange(33, len(cb_bytes)) for _ in range(4)] if m else []
        positions = positions[:22]
    for k, pos in enumerate(positions):
        cls = "cb-internal-key" if pos < 33 else "cb-path-hash"
        tamper_one(ctx, cls, alt(cb_bytes, pos, k % 2), script_raw, q_xonly, orig)
    # structural alterations of the path
    if m:
        tamper_one(ctx, "cb-hash-dropped", cb_bytes[:-32], script_raw, q_xonly, orig)
        i = rng.randrange(m)
        tamper_one(ctx, "cb-hash-dropped", cb_bytes[:33 + 32 * i] + cb_bytes[65 + 32 * i:], script_raw, q_xonly, orig)
        tamper_one(ctx, "cb-hash-duplicated", cb_bytes[:65 + 32 * i] + cb_bytes[33 + 32 * i:], script_raw, q_xonly, orig)
    if m >= 2:
        i = rng.randrange(m - 1)
        a, b = cb_bytes[33 + 32 * i:65 + 32 * i], cb_bytes[65 + 32 * i:97 + 32 * i]
        tamper_one(ctx, "cb-hashes-swapped", cb_bytes[:33 + 32 * i] + b + a + cb_bytes[97 + 32 * i:], script_raw, q_xonly, orig)
    tamper_one(ctx, "cb-hash-appended", cb_bytes + rng.randbytes(32), script_raw, q_xonly, orig)
    tamper_one(ctx, "cb-hash-appended", cb_bytes + rt.tapleaf_hash(script_raw, cb_bytes[0] & 0xFE), script_raw, q_xonly, orig)
    tamper_one(ctx, "cb-truncated", cb_bytes[:-1], script_raw, q_xonly, orig)
    # trailing bytes that do not make up a whole path element (length no longer 33 + 32m)
    for extra in (1, rng.randrange(2, 31), 31):
        tamper_one(ctx, "cb-junk-appended", cb_bytes + rng.randbytes(extra), script_raw, q_xonly, orig)
    tamper_one(ctx, "cb-truncated", cb_bytes[:rng.randrange(1, len(cb_bytes))], script_raw, q_xonly, orig)
    # leaf script bytes
    n = len(script_raw)
    if n == 0:
        spos = []
    else:
        spos = list(range(n)) if (every_byte and n <= 64) else sorted({0, n - 1, rng.randrange(n), rng.randrange(n), rng.randrange(n), rng.randrange(n)})
    for k, pos in enumerate(spos):
        tamper_one(ctx, "script-byte", cb_bytes, alt(script_raw, pos, k % 2), q_xonly, orig)
    tamper_one(ctx, "script-appended", cb_bytes, script_raw + bytes([rng.choice([0x00, 0x51, 0x61, 0x75])]), q_xonly, orig)
    if n > 1:
        tamper_one(ctx, "script-truncated", cb_bytes, script_raw[:-1], q_xonly, orig)
    if n > 0:
        tamper_one(ctx, "script-truncated", cb_bytes, b"", q_xonly, orig)
    tamper_one(ctx, "other-leaf-script", cb_bytes, other_script, q_xonly, orig)
    # same commands, different bytes: a direct push re-encoded with OP_PUSHDATA1 (one inserted byte)
    off = 0
    for c in cmds:
        if isinstance(c, int):
            off += 1
            continue
        ln = len(c)
        if 1 <= ln <= 74:
            re = script_raw[:off] + b"\x4c" + script_raw[off:]
            tamper_one(ctx, "script-push-reencoded", cb_bytes, re, q_xonly, orig)
            break
        off += ln + (1 if ln <= 75 else 2 if ln <= 255 else 3)
    else:
        # no direct push in this script: use a script that has one, committed on its own
        pass


# ---- one tree ---------------------------------------------------------------------------------------
def one_tree(ctx, rng, shape, serial, tier):
    from buidl.pecc import PrivateKey, S256Point
    from buidl.taproot import ControlBlock

    nleaves = rt.shape_key(shape).count("L")
    leaves = []
    for i in range(nleaves):
        length = SCRIPT_LENGTHS[(serial + i) % len(SCRIPT_LENGTHS)] if (i == 0 or rng.random() < 0.3) else rng.choice([1, 2, 34, 35, 74])
        if i == 0 and nleaves <= 2 and serial % 3 == 0:
            length = 0  # the empty script is a leaf script too
        if length == 1 and nleaves > 1 and i > 0:
            length = 2 + i  # one-byte scripts cannot all be distinct
        leaves.append(_gen_leaf(rng, serial * 16 + i, length, None if rng.random() < 0.4 else 0xC0))
    # distinct leaves (equal leaves make 'the' path ambiguous: covered by the duplicate class below)
    seen = set()
    for i, lf in enumerate(leaves):
        while (lf[0], lf[1]) in seen:
            lf = _gen_leaf(rng, serial * 16 + i, 34 + i, 0xC0)
        seen.add((lf[0], lf[1]))
        leaves[i] = lf
    lib, libleaves, ref = _build_lib_tree(shape, leaves)
    # internal key: secret -> point by the reference, both the point and (for half the cases) a PrivateKey
    d = rng.choice([1, 2, 3, ec.N - 1, ec.N - 2]) if rng.random() < 0.1 else rng.randrange(1, ec.N)
    # steer the internal key parity: alternate between even and odd Y
    want_odd = serial % 2
    if (ec.mul(d)[1] & 1) != want_odd:
        d = ec.N - d
    ipt = ec.mul(d)
    internal = S256Point(ipt[0], ipt[1])
    ctx.count("shape:" + rt.shape_key(shape))
    ctx.sample({"shape": rt.shape_key(shape), "internal": ec.sec(ipt), "leaves": [[v, raw] for v, raw, _ in leaves][:3]})

    root_o = outcome(lib.hash)
    if root_o[0] != "ok":
        return
    root = root_o[1]
    ext_o = outcome(lib.external_pubkey, internal)
    if ext_o[0] != "ok":
        return
    ext = ext_o[1]
    q_xonly = ext.xonly()
    # the no-script-tree output key of the same internal key (BIP341/BIP86 key-path-only output)
    if serial % 4 == 0:
        outcome(internal.tweaked_key)
    # sibling swaps leave the root unchanged
    if nleaves > 1:
        for _ in range(2):
            swapped, nsw = _swap_lib(lib, rng)
            so = outcome(swapped.hash)
            if nsw and so[0] == "ok":
                ctx.monitor("swap-invariance")
                ctx.case({"op": "swap", "tree": _tree_case(ref), "swaps": nsw, "serial": serial})
                if so[1] != root:
                    ctx.violation("root-depends-on-sibling-order", "swapping left/right children changed the Merkle root", {"op": "swap", "tree": _tree_case(ref)})
    # tweaked private key is the discrete logarithm of the output key
    if True:
        po = outcome(PrivateKey, d)
        if po[0] == "ok":
            to = outcome(po[1].tweaked_key, root)
            if to[0] == "ok" and _pt(to[1].point) != _pt(ext):
                ctx.violation("tweaked-private-key-is-not-dlog-of-output-key", "priv.tweaked_key(root).point != internal.tweaked_key(root)", {"op": "priv-tweaked-key", "secret": d, "root": root})
    # every leaf: control block builds, serialises, parses back, reproduces key and parity
    blocks = []
    for li, lf in enumerate(libleaves):
        # the spender re-creates the leaf of its script (an EQUAL but distinct object) and asks the tree for the
        # control block - also when the tree is that single leaf: decided by the control_block contract
        from buidl.taproot import TapLeaf as _TL

        outcome(lib.control_block, internal, _TL(lf.tap_script, lf.tapleaf_version))
        ctx.count("control-block:asked-with-recreated-equal-leaf" + (":single-leaf-tree" if len(libleaves) == 1 else ""))
        co = outcome(lib.control_block, internal, lf)
        if co[0] != "ok" or co[1] is None:
            continue
        cb = co[1]
        so = outcome(cb.serialize)
        if so[0] != "ok":
            continue
        po = outcome(ControlBlock.parse, so[1])
        if po[0] != "ok":
            continue
        ctx.monitor("control-block-roundtrip")
        case = {"op": "roundtrip", "tree": _tree_case(ref), "leaf_index": li, "internal": ec.sec(ipt)}
        ctx.case(case)
        back = outcome(po[1].serialize)
        if back != so:
            ctx.violation("control-block-roundtrip-changes-bytes", "parse(serialize(cb)).serialize() differs", case)
        eo = outcome(po[1].external_pubkey, lf.tap_script)
        if eo[0] != "ok":
            continue
        if eo[1].xonly() != q_xonly or eo[1].parity != ext.parity or po[1].parity != ext.parity:
            ctx.violation("control-block-does-not-reproduce-key-and-parity", "parsed control block does not recompute the output key and parity", case)
        blocks.append((li, so[1]))
    # foreign leaf: no control block
    foreign = _gen_leaf(rng, 60000 + serial, 40, 0xC0)
    from buidl.taproot import TapLeaf, TapScript

    outcome(lib.control_block, internal, TapLeaf(TapScript(list(foreign[2])), foreign[0]))
    # tampering: one leaf per tree (the deepest path), every byte in the thorough tier
    if blocks:
        li, cbb = max(blocks, key=lambda t: (len(t[1]), -t[0])) if serial % 3 else blocks[rng.randrange(len(blocks))]
        v, raw, cmds = leaves[li]
        other = leaves[(li + 1) % len(leaves)][1] if len(leaves) > 1 else foreign[1]
        tamper_catalogue(ctx, rng, cbb, raw, cmds, q_xonly, other, every_byte=(tier == "thorough" and serial % 2 == 0))
    # memo: leaves() was populated by control_block; compare with a fresh traversal
    check_memo(ctx)


def duplicate_leaf_case(ctx, rng, serial):
    """Two equal leaves in one tree: only validity of the returned control block is asserted."""
    from buidl.pecc import S256Point

    lf = _gen_leaf(rng, serial, 34, 0xC0)
    other = _gen_leaf(rng, serial + 1, 35, 0xC0)
    shape = rt.all_shapes(3)[serial % 2]
    lib, libleaves, ref = _build_lib_tree(shape, [lf, other, lf] if serial % 3 else [lf, lf, other])
    ipt = ec.mul(rng.randrange(1, ec.N))
    internal = S256Point(ipt[0], ipt[1])
    ctx.count("class:duplicate-leaves")
    for leaf in libleaves:
        outcome(lib.control_block, internal, leaf)
    check_memo(ctx)


def same_script_two_versions_case(ctx, rng, serial):
    """The same script under two different leaf versions in one tree: each leaf has its own path and each control
    block must lead to the root with its own version (decided by the control_block contract)."""
    from buidl.pecc import S256Point

    a = _gen_leaf(rng, serial, 34, 0xC0)
    b = (0xC2 + 2 * (serial % 3), a[1], a[2])
    other = _gen_leaf(rng, serial + 1, 35, 0xC0)
    order = [[a, b, other], [b, other, a], [other, a, b]][serial % 3]
    shape = rt.all_shapes(3)[serial % 2]
    lib, libleaves, ref = _build_lib_tree(shape, order)
    ipt = ec.mul(rng.randrange(1, ec.N))
    internal = S256Point(ipt[0], ipt[1])
    ctx.count("class:same-script-two-versions")
    outcome(lib.hash)
    for leaf in libleaves:
        outcome(lib.control_block, internal, leaf)
    check_memo(ctx)


def edit_history_case(ctx, rng, serial):
    """History on ONE tree object: ask (hash, control blocks), edit a descendant leaf in place, ask again.
    The contracts compare every answer with the reference computed from the tree *as it is now*, so an answer
    served from state remembered before the edit is a violation."""
    from buidl.pecc import S256Point
    from buidl.taproot import TapScript

    nl = 2 + serial % 3
    shape = rt.all_shapes(nl)[serial % len(rt.all_shapes(nl))]
    leaves = [_gen_leaf(rng, serial * 8 + i, 30 + i, 0xC0) for i in range(nl)]
    lib, libleaves, ref = _build_lib_tree(shape, leaves)
    ipt = ec.mul(rng.randrange(1, ec.N))
    internal = S256Point(ipt[0], ipt[1])
    outcome(lib.hash)
    outcome(lib.external_pubkey, internal)
    for leaf in libleaves:
        outcome(lib.control_block, internal, leaf)
    victim = libleaves[rng.randrange(nl)]
    if serial % 2:
        victim.tapleaf_version = 0xC2 + 2 * (serial % 5)
        ctx.count("edit:leaf-version")
    else:
        fresh = _gen_leaf(rng, 50000 + serial, 41, 0xC0)
        victim.tap_script = TapScript(list(fresh[2]))
        ctx.count("edit:leaf-script")
    before = ctx.violation_count
    outcome(lib.hash)
    outcome(lib.external_pubkey, internal)
    for leaf in libleaves:
        co = outcome(lib.control_block, internal, leaf)
        if co[0] == "ok" and co[1] is not None:
            outcome(co[1].external_pubkey, leaf.tap_script)
    ctx.monitor("edit-history")
    ctx.case(("edit-history", serial, rt.shape_key(shape)))


def _run_repo_tests(ctx, names):
    """Thorough tier only: the repository's own test modules executed under the installed contracts
    (an additional workload; a failing test is noted, never a verdict by itself)."""
    import io
    import unittest

    from vmon.core import Quiet

    suite = unittest.defaultTestLoader.loadTestsFromNames(names)
    with Quiet():
        res = unittest.TextTestRunner(stream=io.StringIO(), verbosity=0).run(suite)
    ctx.note("repotests", {"modules": names, "run": res.testsRun, "failures": len(res.failures), "errors": len(res.errors), "skipped": len(res.skipped),
                           "not-passing": [str(t[0]) for t in (res.failures + res.errors)][:12]})
    ctx.count("repotests:run", res.testsRun)


def run_shard(desc, ctx):
    ec.selfcheck()
    rt.selfcheck()
    install()
    if desc["name"] == "repotests":
        _run_repo_tests(ctx, desc["modules"])
        return
    idx, n = desc["idx"], desc["n"]
    cat = catalogue(ctx.tier, ctx.seed)
    for serial, shape in enumerate(cat):
        if serial % n != idx:
            continue
        if ctx.out_of_time():
            return
        one_tree(ctx, ctx.rng("tree", serial), shape, serial, ctx.tier)
    duplicate_leaf_case(ctx, ctx.rng("dup"), idx)
    for k in range(2 if ctx.tier == "quick" else 12):
        same_script_two_versions_case(ctx, ctx.rng("twoversions", k), idx * 16 + k)
        edit_history_case(ctx, ctx.rng("edit", k), idx * 16 + k)
    if not ctx.timed_out:
        ctx.exhaustive.append("binary tree shapes with 1..%d leaves (every leaf of every tree)" % MAX_LEAVES[ctx.tier])
        if ctx.tier == "thorough":
            ctx.exhaustive.append("every byte position of one control block in every second tree (one alteration per position)")


def replay(case, ctx):
    from buidl.pecc import PrivateKey, S256Point
    from buidl.taproot import ControlBlock, TapBranch, TapLeaf, TapScript
    from buidl.script import Script

    ec.selfcheck()
    rt.selfcheck()
    install()

    def leaf_of(v, raw):
        return TapLeaf(TapScript(Script.parse(raw=bytes(raw)).commands), v)

    def lib_tree(c):
        t = _tree_uncase(c)

        def rec(node):
            if rt.is_leaf(node):
                return leaf_of(node[0], node[1])
            return TapBranch(rec(node[0]), rec(node[1]))

        return rec(t)

    op = case.get("op")
    if op == "leaf-hash":
        outcome(leaf_of(case["version"], case["script"]).hash)
    elif op in ("branch-hash", "swap", "memo"):
        t = lib_tree(case["tree"])
        outcome(t.hash)
    elif op in ("path-hashes", "control-block"):
        t = lib_tree(case["tree"])
        lf = leaf_of(case["leaf"][0], case["leaf"][1])
        if op == "path-hashes":
            outcome(t.path_hashes, lf)
        else:
            outcome(t.control_block, S256Point.parse(case["internal"]), lf)
    elif op == "roundtrip":
        t = lib_tree(case["tree"])
        internal = S256Point.parse(case["internal"])
        lf = _fresh_leaves(t)[case["leaf_index"]]
        co = outcome(t.control_block, internal, lf)
        if co[0] == "ok" and co[1] is not None:
            so = outcome(co[1].serialize)
            if so[0] == "ok":
                po = outcome(ControlBlock.parse, so[1])
                if po[0] == "ok":
                    eo = outcome(po[1].external_pubkey, lf.tap_script)
                    ext = outcome(t.external_pubkey, internal)
                    if eo[0] == "ok" and ext[0] == "ok" and (eo[1].xonly() != ext[1].xonly() or po[1].parity != ext[1].parity):
                        ctx.violation("control-block-does-not-reproduce-key-and-parity", "replayed", case)
    elif op in ("cb-serialize", "cb-merkle-root", "cb-external-pubkey"):
        cb = ControlBlock(case["version"], case["parity"], S256Point.parse_xonly(case["internal"]), list(case["hashes"]))
        if op == "cb-serialize":
            outcome(cb.serialize)
        else:
            script = Script.parse(raw=bytes(case["script"]))
            outcome(cb.merkle_root if op == "cb-merkle-root" else cb.external_pubkey, script)
    elif op == "cb-parse":
        outcome(ControlBlock.parse, case["cb"])
    elif op == "tweak":
        outcome(S256Point.parse(case["point"]).tweak, case["root"])
    elif op == "tweaked-key":
        pt = S256Point.parse(case["point"])
        if case.get("tweak") is not None:
            outcome(pt.tweaked_key, case.get("root") or b"", case["tweak"])
        else:
            outcome(pt.tweaked_key, case.get("root") or b"")
    elif op == "priv-tweaked-key":
        outcome(PrivateKey(case["secret"]).tweaked_key, case["root"])
    elif op == "tamper":
        tamper_one(ctx, case["class"], case["cb"], case["script"], case["q"], (case["orig_cb"], case["orig_script"]))
