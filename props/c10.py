"""C10 - PSBT codec is lossless; the signing workflow is order-independent and exact.

History monitor: for a wallet and a spend, every history = (signer subset S, order, shape) where shape is
sequential signing, parallel signing + fold-combine, tree-combine or mixed.  Each signer works on a
parse(serialize()) copy and adds its own unknown key-value pairs.  The checker groups the recorded
results by S and requires ONE combined byte string and ONE final transaction per group, success exactly
when |S| >= m, and a final transaction every input of which the reference analyser calls authorised.
Contracts: PSBT.serialize (independent TLV reader: unsigned tx non-witness, empty scriptSigs, no duplicate
keys), PSBT.combine (signature union), PSBTIn.finalize (threshold), PSBT.final_tx (reference authorisation).
Negative workload: PSBTs carrying a non-verifying partial signature must not load.
"""
import io
import itertools

from ref import ec, psbt as rp, sighash as sh, spend, txcodec as tc
from vmon import contracts
from vmon.bridge import model_of_tx, script_raw_from_fields
from vmon.core import outcome

PROPERTY_ID = "C10"
REPO_TEST_MODULES = ["test_psbt", "test_psbt_helper"]  # thorough tier: run as an extra workload under the contracts
RULE = (
    "cases = signing histories (wallet kind, m-of-n, inputs, signer subset, order, combine shape) executed on "
    "parse(serialize()) copies, plus codec round trips of every intermediate PSBT and PSBTs with corrupted partial "
    "signatures; distinct = (base PSBT bytes, history description) by hash; non-trivial = the history ran to a "
    "combined PSBT and a finalisation attempt that was compared with the other histories of its signer set"
)
ASSUMPTIONS = [
    "fee is always >= vbytes (the library's Tx.verify refuses cheaper transactions inside final_tx)",
    "two PSBTs never carry different values for the same unknown key (BIP174 leaves the winner unspecified)",
    "describe/ change classification is C11's subject",
]

KINDS = ["p2pkh", "p2wpkh", "p2sh-p2wpkh", "p2sh", "p2wsh", "p2sh-p2wsh"]
BAD_SIG_CLASSES = ["sig-bitflip", "foreign-key-sig", "mis-keyed-sig", "sig-for-other-tx", "sig-hashtype-changed", "sig-hashtype-changed-with-declared-type", "sig-bitflip-scripts-stripped"]

GATES = {
    "contracts-ran": ["PSBT.serialize", "PSBT.combine", "PSBTIn.finalize", "PSBT.final_tx"],
    "wallet-kinds": ["kind:" + k for k in KINDS],
    "history-shapes": ["shape:sequential", "shape:parallel-fold", "shape:tree", "shape:mixed", "shape:slim-fold"],
    "threshold-both-sides": ["final:below-threshold-refused", "final:at-threshold-ok", "final:above-threshold-ok"],
    "order-groups": ["group:compared-multiple-histories"],
    "roundtrip": ["rt:created", "rt:signed", "rt:combined", "rt:finalized"],
    "unknowns": ["unknown:global", "unknown:input", "unknown:output"],
    "segwit-flag": ["tx:segwit-flag-true", "tx:segwit-flag-false"],
    "bad-sigs": ["badsig:" + c for c in BAD_SIG_CLASSES],
    "networks": ["net:mainnet", "net:testnet"],
    "unusual-valid-sigs": ["goodsig:short-r-nonce-half", "goodsig:short-r-high-s-flipped-nonce"],
    "psbt-from-signed-tx": ["from-signed:p2pkh"],
    "interop-shapes": ["rt:both-utxo-forms", "topup:foreign-key-signature-as-the-mth"],
    "psbt-from-library-builder": ["helper-built:path-without-coin-type", "helper-built:bip48-path", "helper-built:net=mainnet", "helper-built:net=testnet"],
}


def anchors():
    from buidl import psbt

    return [psbt.PSBT.parse, psbt.PSBT.serialize, psbt.PSBT.validate, psbt.PSBT.combine, psbt.PSBT.final_tx, psbt.PSBTIn.finalize,
            psbt.PSBTIn.serialize, psbt.PSBTIn.parse, psbt.PSBTIn.combine, psbt.PSBTOut.serialize, psbt.PSBTOut.parse]


# ---- contracts ------------------------------------------------------------------------------------------
def post_serialize(args, kwargs, pre, out):
    ctx = contracts.ctx()
    self = args[0]
    if out[0] == "exc":
        ctx.violation("psbt-serialize-raises", f"{out[1]!r}", {"op": "psbt-object"})
        return
    raw = out[1]
    case = {"op": "psbt-bytes", "raw": raw}
    try:
        m = rp.decode(raw)
    except Exception as e:  # noqa: BLE001
        ctx.violation("psbt-serialize-not-bip174", f"independent reader fails: {e!r}", case)
        return
    if m["tx"]["segwit"]:
        ctx.violation("psbt-unsigned-tx-in-witness-format", "global unsigned tx carries the segwit marker", case)
    if any(i["script"] for i in m["tx"]["ins"]):
        ctx.violation("psbt-unsigned-tx-has-scriptsig", "global unsigned tx has a non-empty scriptSig", case)
    if rp.has_duplicate_keys(m):
        ctx.violation("psbt-duplicate-keys", "a map carries the same key twice", case)
    if m["tx_raw"] != tc.encode_stripped(model_of_tx(self.tx_obj)):
        ctx.violation("psbt-unsigned-tx-differs-from-object", "embedded tx is not the stripped serialisation of tx_obj", case)


def _sig_sets(p):
    return [dict(i.sigs) for i in p.psbt_ins]


def snap_combine(self, other):
    return (_sig_sets(self), _sig_sets(other), self.tx_obj.hash())


def post_combine(args, kwargs, pre, out):
    ctx = contracts.ctx()
    self = args[0]
    if out[0] == "exc":
        return NotImplemented
    a, b, h = pre
    for k, (x, y) in enumerate(zip(a, b)):
        want = {**y, **x}
        if self.psbt_ins[k].sigs != want:
            ctx.violation("combine-loses-signatures", f"input {k}: {len(self.psbt_ins[k].sigs)} sigs, union has {len(want)}", {"op": "psbt-object"})
    if self.tx_obj.hash() != h:
        ctx.violation("combine-changes-transaction", "tx hash changed", {"op": "psbt-object"})


def _threshold_info(pin):
    spk = pin.script_pubkey()
    script = pin.witness_script or (pin.redeem_script if (pin.redeem_script and not pin.redeem_script.is_witness_script()) else None)
    if script is not None:
        tpl = spend.multisig_template(script_raw_from_fields(script))
        if tpl is None:
            return None
        m, keys = tpl
        return m, sum(1 for k in keys if k in pin.sigs)
    if spk is None:
        return None
    return 1, len(pin.sigs)


def snap_finalize(self):
    return _threshold_info(self)


def post_finalize(args, kwargs, pre, out):
    ctx = contracts.ctx()
    if pre is None:
        return NotImplemented
    m, have = pre
    if out[0] == "ok" and have < m:
        ctx.violation("finalize-below-threshold", f"{have} signature(s) by script keys, {m} required", {"op": "psbt-object"})
    if out[0] == "exc" and have >= m and not (m == 1 and have > 1):
        ctx.violation("finalize-refuses-enough-signatures", f"{have} of {m}: {out[1]!r}", {"op": "psbt-object"})


def post_final_tx(args, kwargs, pre, out):
    ctx = contracts.ctx()
    if out[0] == "exc":
        return NotImplemented
    tx = out[1]
    model = model_of_tx(tx)
    spent = []
    for i in tx.tx_ins:
        if i._value is None or i._script_pubkey is None:
            return NotImplemented
        spent.append({"amount": i._value, "script": script_raw_from_fields(i._script_pubkey)})
    for k in range(len(model["ins"])):
        info = spend.analyse(model, spent, k)
        if info["authorised"] is False:
            ctx.violation("final-tx-input-not-authorised", f"input {k}: {info['why']}", {"op": "final-tx", "model": model, "spent": spent})


def install():
    from buidl import psbt

    contracts.install(psbt.PSBT, "serialize", post_serialize)
    contracts.install(psbt.PSBT, "combine", post_combine, snap=snap_combine)
    contracts.install(psbt.PSBTIn, "finalize", post_finalize, snap=snap_finalize)
    contracts.install(psbt.PSBT, "final_tx", post_final_tx)


# ---- operations on PSBT bytes (each on a fresh parse(serialize()) copy) -----------------------------------------
def op_sign(raw, wallet, who):
    from props.psbtlib import reparse

    p = reparse(raw, wallet.network)
    signed = p.sign(wallet.roots[who])
    tag = bytes([who])
    p.extra_map[b"\xfc\x05verif\x10" + tag] = b"signer" + tag
    p.psbt_ins[0].extra_map[b"\xfc\x05verif\x11" + tag] = b"in" + tag
    if p.psbt_outs:
        p.psbt_outs[-1].extra_map[b"\xfc\x05verif\x12" + tag] = b"out" + tag
    return p.serialize(), signed


def op_combine(a, b, wallet):
    from props.psbtlib import reparse

    p, q = reparse(a, wallet.network), reparse(b, wallet.network)
    p.combine(q)
    return p.serialize()


def op_finalize(raw, wallet):
    from props.psbtlib import reparse

    p = reparse(raw, wallet.network)
    p.finalize()
    fin = p.serialize()
    tx = p.final_tx()
    # extracting the transaction must not change the PSBT it was extracted from
    again = p.serialize()
    if again != fin:
        raise PsbtChangedByExtraction("serialize() after final_tx() differs from serialize() before it")
    return fin, tx.serialize()


class PsbtChangedByExtraction(Exception):
    pass


def slim_copy(raw, wallet, who):
    """The copy a cosigner's own updater would produce: only that cosigner's BIP32 derivations on the inputs."""
    m = rp.decode(raw)
    xfp = bytes.fromhex(wallet.xfps[who])
    ins = [[(k, v) for k, v in imap if not (k[:1] == b"\x06" and v[:4] != xfp)] for imap in m["ins"]]
    return rp.encode({"global": m["global"], "ins": ins, "outs": m["outs"]})


def check_roundtrip(ctx, raw, wallet, stage):
    from props.psbtlib import reparse

    ctx.count("rt:" + stage)
    ctx.monitor("psbt-roundtrip")
    o = outcome(lambda: reparse(raw, wallet.network).serialize())
    case = {"op": "psbt-bytes", "raw": raw, "network": wallet.network, "stage": stage}
    if o[0] == "exc":
        ctx.violation(f"psbt-roundtrip-raises:{stage}", o[1], case)
    elif o[1] != raw:
        ctx.violation(f"psbt-roundtrip-bytes-differ:{stage}", "serialize(parse(x)) != x for a library-produced x", case)


def both_utxo_forms(ctx, wallet, sc, base):
    """Segwit inputs carrying the witness UTXO AND the full previous transaction (what Bitcoin Core writes since the
    fee-overpayment advisory): a PSBT the library parses; what it then serialises has to parse again, to the same bytes."""
    from props.psbtlib import reparse

    m = rp.decode(base)
    if not any(k == b"\x01" for imap in m["ins"] for k, _ in imap):
        return
    ins = []
    for k_in, imap in enumerate(m["ins"]):
        prev_raw = sc.funding[k_in][0].serialize()
        ins.append(([(b"\x00", prev_raw)] if any(k == b"\x01" for k, _ in imap) and not any(k == b"\x00" for k, _ in imap) else []) + list(imap))
    raw = rp.encode({"global": m["global"], "ins": ins, "outs": m["outs"]})
    ctx.count("rt:both-utxo-forms")
    ctx.monitor("psbt-roundtrip")
    case = {"op": "psbt-bytes", "raw": raw, "network": wallet.network, "stage": "both-utxo-forms"}
    o = outcome(lambda: reparse(raw, wallet.network).serialize())
    if o[0] == "exc":
        ctx.count("observed:both-utxo-forms-refused-at-parse")
        return
    o2 = outcome(lambda: reparse(o[1], wallet.network).serialize())
    if o2[0] == "exc":
        ctx.violation("psbt-roundtrip-raises:both-utxo-forms", f"the library's own serialisation of a parsed PSBT does not parse: {o2[1]}", case)
    elif o2[1] != o[1]:
        ctx.violation("psbt-roundtrip-bytes-differ:both-utxo-forms", "serialize(parse(serialize(parse(x)))) != serialize(parse(x))", case)
    ctx.case((raw, "both-forms"))


def odd_field_shapes(ctx, rng, wallet, base):
    """Records in shapes other software may write: whatever PSBT.parse accepts must serialise, and serialise stably."""
    from props.psbtlib import reparse

    m = rp.decode(base)
    variants = []
    for name, val in (("sighash-1-byte", b"\x01"), ("sighash-4-bytes", (1).to_bytes(4, "little")), ("sighash-5-bytes>=2^32", b"\x01\x00\x00\x00\x01"),
                      ("sighash-8-bytes", (1).to_bytes(8, "little")), ("sighash-6-bytes>=2^32", b"\x01\x00\x00\x00\x00\x02")):
        ins = [[e for e in imap if e[0] != b"\x03"] + [(b"\x03", val)] for imap in m["ins"]]
        variants.append((name, rp.encode({"global": m["global"], "ins": ins, "outs": m["outs"]})))
    # scripts and derivations present, the UTXO record not (yet): an updater that adds scripts first
    variants.append(("no-utxo-record-yet", rp.encode({"global": m["global"], "ins": [[e for e in imap if e[0] not in (b"\x00", b"\x01")] for imap in m["ins"]], "outs": m["outs"]})))
    for name, raw in variants:
        ctx.count("shape:" + name.split(">")[0])
        ctx.monitor("psbt-roundtrip")
        case = {"op": "psbt-bytes", "raw": raw, "network": wallet.network, "stage": "odd-shape:" + name}
        o = outcome(reparse, raw, wallet.network)
        if o[0] == "exc":
            ctx.count("observed:odd-shape-refused-at-parse:" + name)
            continue
        o1 = outcome(o[1].serialize)
        if o1[0] == "exc":
            ctx.violation("parsed-psbt-does-not-serialise:" + name, o1[1], case)
            continue
        o2 = outcome(lambda: reparse(o1[1], wallet.network).serialize())
        if o2[0] == "exc" or o2[1] != o1[1]:
            ctx.violation("psbt-roundtrip-bytes-differ:" + name, f"second pass: {o2[1] if o2[0] == 'exc' else 'bytes differ'}", case)
        ctx.case((raw, "odd-shape"))


def run_history(ctx, wallet, base, signer_cache, desc):
    """desc = (shape, order tuple).  Returns combined PSBT bytes."""
    shape, order = desc

    def signed_alone(i):
        if i not in signer_cache:
            signer_cache[i] = op_sign(base, wallet, i)[0]
        return signer_cache[i]

    if not order:
        return base
    if shape == "sequential":
        x = base
        for i in order:
            x = op_sign(x, wallet, i)[0]
        return x
    if shape == "parallel-fold":
        x = signed_alone(order[0])
        for i in order[1:]:
            x = op_combine(x, signed_alone(i), wallet)
        return x
    if shape == "tree":
        parts = [signed_alone(i) for i in order]
        while len(parts) > 1:
            nxt = []
            for j in range(0, len(parts), 2):
                nxt.append(op_combine(parts[j + 1], parts[j], wallet) if j + 1 < len(parts) else parts[j])
            parts = nxt
        return parts[0]
    if shape == "slim-fold":
        # every signer works on a copy carrying only its own key derivations; the copies (and finally the
        # updater's full copy) are folded together
        parts = [op_sign(slim_copy(base, wallet, i), wallet, i)[0] for i in order]
        x = parts[0]
        for y in parts[1:]:
            x = op_combine(x, y, wallet)
        return op_combine(x, base, wallet)
    if shape == "mixed":
        # first two sign in sequence, the rest in parallel, combined into the chain
        x = base
        for i in order[:2]:
            x = op_sign(x, wallet, i)[0]
        for i in order[2:]:
            x = op_combine(signed_alone(i), x, wallet)
        if len(order) >= 2:
            x = op_combine(x, signed_alone(order[0]), wallet)  # redundant re-combination must be harmless
        return x
    raise KeyError(shape)


def histories_for(rng, n, quick, m=1):
    """{subset: [(shape, order), ...]}"""
    out = {}
    for r in range(0, n + 1):
        for S in itertools.combinations(range(n), r):
            perms = list(itertools.permutations(S))
            rng.shuffle(perms)
            if quick:
                # below the threshold one history per subset (refusal), at/above it two orders in two shapes,
                # the full signer set additionally mixed and tree shapes
                if len(S) < m or len(S) == 0:
                    hs = [("sequential" if len(S) % 2 else "parallel-fold", perms[0])]
                else:
                    hs = [("sequential", perms[0]), ("parallel-fold", perms[-1][::-1] if len(perms) == 1 else perms[-1])]
                    if len(S) == n and n >= 2:
                        hs.append(("mixed", perms[len(perms) // 2]))
                        hs.append(("slim-fold", perms[-1]))
                    if len(S) == n and n >= 3:
                        hs.append(("tree", perms[1]))
                out[S] = hs
                continue
            lim = 6 if n <= 3 else 4
            hs = []
            for k, pi in enumerate(perms[:lim]):
                hs.append(("sequential", pi))
                hs.append(("parallel-fold", pi[::-1] if k % 2 else pi))
            if len(S) >= 2:
                hs.append(("mixed", perms[0]))
                hs.append(("slim-fold", perms[-1]))
                hs.append(("slim-fold", perms[0]))
            if len(S) >= 3:
                hs.append(("tree", perms[-1]))
            out[S] = hs
    return out


def one_wallet(ctx, rng, kind, m, n, network, n_in, segwit_flag, quick):
    from props.psbtlib import Scenario, Wallet

    ctx.count("kind:" + kind)
    ctx.count("net:" + network)
    ctx.count("tx:segwit-flag-true" if segwit_flag else "tx:segwit-flag-false")
    wallet = Wallet(rng, kind, m, n, network)
    sc = Scenario(rng, wallet, n_in=n_in, n_spend=rng.choice([1, 2]), with_change=rng.random() < 0.7, segwit_flag=segwit_flag, shared_prev=n_in >= 2 and rng.random() < 0.4)
    o = outcome(sc.create_psbt)
    if o[0] == "exc":
        ctx.violation(f"psbt-create-raises:{kind}", o[1], {"op": "wallet", "kind": kind, "m": m, "n": n})
        return
    p = o[1]
    p.extra_map[b"\xfc\x05verif\x01"] = b"shared-global"
    p.psbt_ins[0].extra_map[b"\xfc\x05verif\x02"] = b"shared-in"
    if p.psbt_outs:
        p.psbt_outs[0].extra_map[b"\xfc\x05verif\x03"] = b"shared-out"
        ctx.count("unknown:output")
    ctx.count("unknown:global")
    ctx.count("unknown:input")
    ob = outcome(p.serialize)
    if ob[0] == "exc":
        ctx.violation(f"psbt-serialize-raises:{kind}", ob[1], {"op": "wallet", "kind": kind})
        return
    base = ob[1]
    check_roundtrip(ctx, base, wallet, "created")
    both_utxo_forms(ctx, wallet, sc, base)
    odd_field_shapes(ctx, rng, wallet, base)
    cache = {}
    results = {}
    for S, hs in histories_for(rng, n, quick, m).items():
        group = []
        for desc in hs:
            if ctx.out_of_time():
                return
            ctx.count("shape:" + desc[0])
            oc = outcome(run_history, ctx, wallet, base, cache, desc)
            ctx.monitor("history")
            hcase = {"op": "history", "kind": kind, "m": m, "n": n, "subset": list(S), "desc": [desc[0], list(desc[1])], "base": base, "network": network, "seeds": wallet.seeds, "path": wallet.account_path}
            if oc[0] == "exc":
                ctx.violation(f"history-raises:{kind}:{desc[0]}", oc[1], hcase)
                continue
            combined = oc[1]
            of = outcome(op_finalize, combined, wallet)
            group.append((desc, combined, of))
            ctx.case((base, S, desc))
            if len(S) < m:
                if of[0] == "ok":
                    ctx.violation(f"final-tx-with-too-few-signers:{kind}", f"{len(S)} of {m} signers produced a transaction", hcase)
                else:
                    ctx.count("final:below-threshold-refused")
            else:
                ctx.count("final:at-threshold-ok" if len(S) == m else "final:above-threshold-ok")
                if of[0] == "exc":
                    ctx.violation(f"final-tx-refused-with-enough-signers:{kind}", f"{len(S)} of {m}: {of[1]}", hcase)
        results[S] = group
        if len(group) > 1:
            ctx.count("group:compared-multiple-histories")
            ref_desc, ref_comb, ref_fin = group[0]
            for desc, comb, fin in group[1:]:
                ctx.monitor("history-group-compare")
                gcase = {"op": "history-pair", "kind": kind, "m": m, "n": n, "subset": list(S), "a": [ref_desc[0], list(ref_desc[1])], "b": [desc[0], list(desc[1])], "base": base, "network": network, "seeds": wallet.seeds, "path": wallet.account_path}
                if comb != ref_comb:
                    ctx.violation(f"combined-psbt-depends-on-order:{kind}", f"{ref_desc} vs {desc}", gcase)
                if fin[0] == "ok" and ref_fin[0] == "ok" and fin[1][1] != ref_fin[1][1]:
                    ctx.violation(f"final-tx-depends-on-order:{kind}", f"{ref_desc} vs {desc}", gcase)
        if group:
            stage_bytes = group[0][1]
            if S and len(S) in (1, n):
                check_roundtrip(ctx, stage_bytes, wallet, "signed" if len(S) == 1 else "combined")
            if group[0][2][0] == "ok" and len(S) == min(n, m):
                check_roundtrip(ctx, group[0][2][1][0], wallet, "finalized")
                late_bad_sig(ctx, rng, wallet, sc, group[0][2][1][0])
    if len(ctx.samples) < 3:
        ctx.sample({"kind": kind, "m": m, "n": n, "inputs": n_in, "network": network, "base_psbt": base[:200],
                    "histories": {str(S): [(d[0], list(d[1])) for d, _, _ in g] for S, g in list(results.items())[:4]}})
    bad_partial_sigs(ctx, rng, wallet, sc, base, cache)
    unusual_partial_sigs(ctx, rng, wallet, sc, base, cache)
    foreign_sig_topup(ctx, rng, wallet, sc, base, cache)


# ---- negative: partial signatures that do not verify ---------------------------------------------------------------
def digest_for_input(sc, model, k):
    w = sc.wallet
    prev, vout, sats, (branch, idx) = sc.funding[k]
    spk, redeem, ws, ch = w.scripts(branch, idx)
    if w.kind == "p2pkh":
        return sh.legacy(model, k, spk.raw_serialize(), 1)
    if w.kind == "p2sh":
        return sh.legacy(model, k, redeem.raw_serialize(), 1)
    if w.kind in ("p2wpkh", "p2sh-p2wpkh"):
        return sh.bip143(model, k, sh.p2pkh_script(ch[0].hash160()), sats, 1)
    return sh.bip143(model, k, ws.raw_serialize(), sats, 1)


def bad_partial_sigs(ctx, rng, wallet, sc, base, cache):
    from props.psbtlib import reparse

    if 0 not in cache:
        o = outcome(op_sign, base, wallet, 0)
        if o[0] != "ok":
            return
        cache[0] = o[1][0]
    signed = cache[0]
    m = rp.decode(signed)
    model = m["tx"]
    # reference check of what the signer produced (the positive side of "partial signatures verify")
    for k, imap in enumerate(m["ins"]):
        for key, val in imap:
            if key[:1] == b"\x02":
                ctx.monitor("partial-sig-reference-verify")
                pub = ec.parse_sec(key[1:])
                z = int.from_bytes(digest_for_input(sc, model, k), "big")
                rs = ec.der_parse_strict(val[:-1])
                if pub is None or rs is None or val[-1] != 1 or not ec.ecdsa_verify(pub, z, *rs):
                    ctx.violation(f"signer-emits-invalid-partial-sig:{wallet.kind}", f"input {k}", {"op": "psbt-bytes", "raw": signed, "network": wallet.network})
    pos = [(k, j) for k, imap in enumerate(m["ins"]) for j, (key, _) in enumerate(imap) if key[:1] == b"\x02"]
    if not pos:
        return
    for cls in BAD_SIG_CLASSES:
        k, j = rng.choice(pos)
        mm = {"global": list(m["global"]), "ins": [list(x) for x in m["ins"]], "outs": [list(x) for x in m["outs"]]}
        key, val = mm["ins"][k][j]
        z = int.from_bytes(digest_for_input(sc, model, k), "big")
        if cls == "sig-bitflip":
            rs = ec.der_parse_strict(val[:-1])
            val2 = ec.der(rs[0], rs[1] ^ (1 << rng.randrange(200))) + b"\x01"
        elif cls == "foreign-key-sig":
            r_, s_, _, _ = ec.ecdsa_sign(rng.randrange(1, ec.N), z)
            val2 = ec.der(r_, s_) + b"\x01"
        elif cls == "mis-keyed-sig":
            d = rng.randrange(1, ec.N)
            r_, s_, _, _ = ec.ecdsa_sign(d, z)
            val2 = ec.der(r_, s_) + b"\x01"  # valid for key d, stored under the cosigner's key
        elif cls == "sig-for-other-tx":
            r_, s_, _, _ = ec.ecdsa_sign(rng.randrange(1, ec.N), z ^ 1)
            # a signature by the *right* key is not available to the harness without the library; use the original
            # signature but change a committed field of the unsigned transaction instead
            val2 = val
            t = dict(model, outs=[dict(o) for o in model["outs"]], ins=[dict(i) for i in model["ins"]])
            if t["outs"]:
                t["outs"][0]["amount"] += 1
            else:
                t["locktime"] += 1
            mm["global"] = [(gk, tc.encode_stripped(t) if gk == b"\x00" else gv) for gk, gv in mm["global"]]
        elif cls == "sig-hashtype-changed-with-declared-type":
            # the input declares PSBT_IN_SIGHASH_TYPE = ALL, the signature's own trailing byte says otherwise
            val2 = val[:-1] + bytes([rng.choice([2, 3, 0x81])])
            mm["ins"][k] = [e for e in mm["ins"][k] if e[0] != b"\x03"] + [(b"\x03", (1).to_bytes(4, "little"))]
            j = [n_ for n_, e in enumerate(mm["ins"][k]) if e[0] == key][0]
        elif cls == "sig-bitflip-scripts-stripped":
            # the same junk signature on a copy whose redeem / witness script records are gone (a slimmed PSBT): the UTXO
            # alone has to be enough to see that the signature is not one
            rs = ec.der_parse_strict(val[:-1])
            val2 = ec.der(rs[0], rs[1] ^ (1 << rng.randrange(200))) + b"\x01"
            mm["ins"][k] = [e for e in mm["ins"][k] if e[0] not in (b"\x04", b"\x05")]
            j = [n_ for n_, e in enumerate(mm["ins"][k]) if e[0] == key][0]
        else:  # sig-hashtype-changed
            val2 = val[:-1] + bytes([rng.choice([2, 3, 0x81])])
        mm["ins"][k][j] = (key, val2)
        raw = rp.encode(mm)
        ctx.count("badsig:" + cls)
        ctx.monitor("bad-partial-sig-load")
        o = outcome(reparse, raw, wallet.network)
        case = {"op": "psbt-bytes", "raw": raw, "network": wallet.network, "stage": "badsig:" + cls}
        if o[0] == "ok":
            ctx.violation(f"psbt-loads-invalid-partial-sig:{cls}", f"{wallet.kind} input {k}", case)
        else:
            ctx.rejected_by_exception += 1
        ctx.case((raw,))


# ---- positive: valid partial signatures of unusual length -----------------------------------------------------------
HALF = pow(2, ec.N - 2, ec.N)  # nonce 1/2: r = x(G/2) has 21 bytes, so the DER signature has ~59 bytes


def _child_secret(wallet, sec):
    for (branch, idx), ch in list(wallet._cache.items()):
        for who, c in enumerate(ch):
            if c.sec() == sec:
                return wallet.roots[who].traverse(wallet.path_of(branch, idx)).private_key.secret
    return None


def unusual_partial_sigs(ctx, rng, wallet, sc, base, cache):
    """A cosigner that grinds for short signatures (here nonce 1/2) or emits a high-S value hands over partial signatures
    the reference calls valid: the PSBT must load, round-trip, and finalise to an authorised transaction."""
    from props.psbtlib import reparse

    if 0 not in cache:
        return
    signed = cache[0]
    m = rp.decode(signed)
    model = m["tx"]
    for cls in ("short-r-nonce-half", "short-r-high-s-flipped-nonce"):
        mm = {"global": list(m["global"]), "ins": [list(x) for x in m["ins"]], "outs": [list(x) for x in m["outs"]]}
        done = 0
        for k, imap in enumerate(mm["ins"]):
            for j, (key, val) in enumerate(imap):
                if key[:1] != b"\x02":
                    continue
                secret = _child_secret(wallet, key[1:])
                if secret is None:
                    continue
                z = int.from_bytes(digest_for_input(sc, model, k), "big")
                nonce = HALF if cls == "short-r-nonce-half" else ec.N - HALF
                r_, s_, _ = ec.ecdsa_sign_with_k(secret, z, nonce)
                if not ec.ecdsa_verify(ec.parse_sec(key[1:]), z, r_, s_):
                    raise RuntimeError("harness: crafted partial signature does not verify in the reference")
                imap[j] = (key, ec.der(r_, s_) + b"\x01")
                ctx.count("sig-length:%d" % len(imap[j][1]))
                done += 1
        if not done:
            return
        raw = rp.encode(mm)
        ctx.count("goodsig:" + cls)
        ctx.monitor("unusual-partial-sig-load")
        case = {"op": "psbt-bytes", "raw": raw, "network": wallet.network, "stage": "goodsig:" + cls}
        o = outcome(reparse, raw, wallet.network)
        if o[0] == "exc":
            ctx.violation(f"psbt-refuses-valid-partial-sig:{cls}", f"{wallet.kind}: {o[1]}", case)
            continue
        check_roundtrip(ctx, raw, wallet, "unusual-sig")
        if wallet.m == 1:
            of = outcome(op_finalize, raw, wallet)
            if of[0] == "exc":
                ctx.violation(f"final-tx-refused-with-valid-short-sig:{wallet.kind}", of[1], case)
        ctx.case((raw,))


def late_bad_sig(ctx, rng, wallet, sc, finalised):
    """A finalised PSBT that also carries a partial signature (a late cosigner's PSBT combined in): the partial signature
    is still a partial signature - one that does not verify must keep the PSBT from loading."""
    from props.psbtlib import reparse

    m = rp.decode(finalised)
    secs = [k for k in sc.pubkey_lookup if isinstance(k, bytes) and len(k) == 33]
    if not secs:
        return
    junk = ec.der(rng.randrange(1, ec.N), rng.randrange(1, ec.N // 2)) + b"\x01"
    ins = [list(x) for x in m["ins"]]
    ins[0] = ins[0] + [(b"\x02" + rng.choice(secs), junk)]
    raw = rp.encode({"global": m["global"], "ins": ins, "outs": m["outs"]})
    ctx.count("badsig:junk-partial-sig-on-finalised-input")
    ctx.monitor("bad-partial-sig-load")
    o = outcome(reparse, raw, wallet.network)
    if o[0] == "ok":
        ctx.violation("psbt-loads-invalid-partial-sig:on-finalised-input", f"{wallet.kind}: a junk partial signature next to the final scriptSig / witness loaded",
                      {"op": "psbt-bytes", "raw": raw, "network": wallet.network, "stage": "badsig:on-finalised-input"})
    else:
        ctx.rejected_by_exception += 1
    ctx.case((raw, "late-bad-sig"))


def foreign_sig_topup(ctx, rng, wallet, sc, base, cache):
    """m-1 cosigners have signed; the missing signature is "supplied" by a key that is NOT in the script (a perfectly
    valid signature of that foreign key over the right digest).  The PSBT may load or not - but finalising it must fail:
    decided by the PSBTIn.finalize contract (signatures by script keys < m)."""
    from props.psbtlib import reparse

    if wallet.kind not in ("p2sh", "p2wsh", "p2sh-p2wsh"):
        return
    o = outcome(run_history, ctx, wallet, base, cache, ("sequential", tuple(range(wallet.m - 1))))
    if o[0] != "ok":
        return
    m = rp.decode(o[1])
    model = m["tx"]
    d = rng.randrange(1, ec.N)
    sec_d = ec.sec(ec.mul(d))
    ins = []
    for k, imap in enumerate(m["ins"]):
        z = int.from_bytes(digest_for_input(sc, model, k), "big")
        r_, s_, _, _ = ec.ecdsa_sign(d, z)
        ins.append(list(imap) + [(b"\x02" + sec_d, ec.der(r_, s_) + b"\x01")])
    raw = rp.encode({"global": m["global"], "ins": ins, "outs": m["outs"]})
    ctx.count("topup:foreign-key-signature-as-the-mth")
    ctx.monitor("foreign-sig-topup")
    case = {"op": "psbt-bytes", "raw": raw, "network": wallet.network, "stage": "foreign-sig-topup"}
    ol = outcome(reparse, raw, wallet.network)
    if ol[0] == "exc":
        ctx.count("topup:refused-at-load")
        return
    of = outcome(op_finalize, raw, wallet)
    if of[0] == "ok":
        ctx.violation(f"final-tx-with-too-few-signers:{wallet.kind}", f"{wallet.m - 1} cosigner signature(s) plus one by a key outside the script produced a transaction", case)
    ctx.case((raw, "topup"))


# ---- a PSBT made from a transaction that was already signed the plain way -------------------------------------------
def from_signed_tx(ctx, rng, kind, network):
    """tx.sign_input() on every input, tx.id() queried (as a caller logging it would), then PSBT.create(tx): the
    scriptSigs / witnesses move into the PSBT inputs.  The embedded transaction must be the stripped one (also by its
    own hash), the PSBT must round-trip, combine with its own re-parse as a no-op, and extract the signed transaction."""
    from props.psbtlib import Scenario, Wallet, reparse
    from buidl.psbt import PSBT

    wallet = Wallet(rng, kind, 1, 1, network)
    sc = Scenario(rng, wallet, n_in=rng.choice([1, 2]), n_spend=1, with_change=rng.random() < 0.5, segwit_flag=kind != "p2pkh")
    tx = sc.tx
    case = {"op": "from-signed", "kind": kind, "network": network, "seeds": wallet.seeds}
    for k, (prev, vout, sats, (branch, idx)) in enumerate(sc.funding):
        spk, redeem, ws, ch = wallet.scripts(branch, idx)
        tx.tx_ins[k]._value, tx.tx_ins[k]._script_pubkey = sats, spk
        priv = wallet.roots[0].traverse(wallet.path_of(branch, idx)).private_key
        o = outcome(lambda: tx.sign_input(k, priv, redeem_script=redeem) if redeem is not None else tx.sign_input(k, priv))
        if o[0] == "exc" or not o[1]:
            ctx.count("from-signed:plain-signing-unavailable:" + kind)
            return
    signed_id, signed_bytes = tx.id(), tx.serialize()
    signed_model = model_of_tx(tx)
    stripped = tc.encode_stripped(dict(signed_model, ins=[dict(i, script=b"", witness=[]) for i in signed_model["ins"]]))
    ctx.count("from-signed:" + kind)
    ctx.monitor("from-signed-tx")
    o = outcome(lambda: PSBT.create(tx, tx_lookup=sc.tx_lookup, pubkey_lookup=sc.pubkey_lookup, redeem_lookup=sc.redeem_lookup, witness_lookup=sc.witness_lookup))
    if o[0] == "exc":
        ctx.count("from-signed:create-refuses:" + kind)
        return
    p = o[1]
    ob = outcome(p.serialize)
    if ob[0] == "exc":
        ctx.violation("from-signed:serialize-raises", ob[1], case)
        return
    raw = ob[1]
    case["raw"] = raw
    m = rp.decode(raw)
    if m["tx_raw"] != stripped:
        ctx.violation("from-signed:embedded-tx-not-stripped", "the global transaction is not the signed one with scripts emptied", case)
    import hashlib

    want_hash = hashlib.sha256(hashlib.sha256(stripped).digest()).digest()[::-1]
    oh = outcome(p.tx_obj.hash)
    if oh[0] == "ok" and oh[1] != want_hash:
        ctx.violation("from-signed:tx-object-reports-stale-hash", f"tx_obj.hash() = {oh[1].hex()} (signed id {signed_id}), embedded tx hashes to {want_hash.hex()}", case)
    check_roundtrip(ctx, raw, wallet, "from-signed")
    oc = outcome(lambda: (p.combine(reparse(raw, network)), p.serialize())[1])
    if oc[0] == "exc":
        ctx.violation("from-signed:self-combine-raises", oc[1], case)
    elif oc[1] != raw:
        ctx.violation("from-signed:self-combine-changes-bytes", "combine with own re-parse is not a no-op", case)
    of = outcome(lambda: reparse(raw, network).final_tx().serialize())
    if of[0] == "exc":
        ctx.violation("from-signed:final-tx-raises", of[1], case)
    elif of[1] != signed_bytes:
        ctx.violation("from-signed:final-tx-differs-from-signed-tx", "extraction does not give back the signed transaction", case)
    ctx.case((raw, "from-signed"))


# ---- PSBTs made by the library's own builder (psbt_helper.create_multisig_psbt) --------------------------------------
def helper_built_flow(ctx, rng, network, m, n, base_path):
    """The coordinator keeps the OBJECT the builder returned, signers get parse(serialize()) copies - parsed the way a
    caller who trusts the PSBT's own xpubs does, i.e. without a network argument - and the coordinator combines the signed
    copies into its object.  Every serialisation must survive parse -> serialise unchanged and carry no duplicate keys
    (PSBT.serialize contract); with m signers the object finalises to an authorised transaction."""
    from buidl.hd import HDPrivateKey
    from buidl.psbt import PSBT
    from buidl.psbt_helper import create_multisig_psbt
    from buidl.script import RedeemScript
    from buidl.tx import Tx, TxIn, TxOut

    seeds = [rng.randbytes(32) for _ in range(n)]
    roots = [HDPrivateKey.from_seed(s, network=network) for s in seeds]
    accts = [r.traverse(base_path).pub for r in roots]
    records = [[r.fingerprint().hex(), a.xpub(), base_path] for r, a in zip(roots, accts)]
    idx = rng.randrange(0, 30)
    redeem = RedeemScript.create_p2sh_multisig(m, [a.child(0).child(idx).sec().hex() for a in accts])
    sats = rng.randrange(200_000, 3_000_000)
    fund = Tx(1, [TxIn(rng.randbytes(32), 0)], [TxOut(sats, redeem.script_pubkey())], 0, network=network)
    inputs = [{"quorum_m": m, "path_dict": {rec[0]: f"{base_path}/0/{idx}" for rec in records},
               "prev_tx_dict": {"hex": fund.serialize().hex(), "hash_hex": fund.hash().hex(), "output_idx": 0, "output_sats": sats}}]
    fee = rng.randrange(1_000, 5_000)
    from buidl.script import P2PKHScriptPubKey

    dest = P2PKHScriptPubKey(rng.randbytes(20)).address(network)
    outputs = [{"sats": sats - fee, "address": dest}]
    case = {"op": "helper-built", "network": network, "m": m, "n": n, "base_path": base_path, "seeds": seeds}
    ctx.count("helper-built:" + ("path-without-coin-type" if base_path.startswith("m/45") else "bip48-path"))
    ctx.count("helper-built:net=" + network)
    ctx.monitor("helper-built")
    o = outcome(create_multisig_psbt, records, inputs, outputs, fee)
    if o[0] == "exc":
        ctx.violation("helper-built:builder-raises", o[1], case)
        return
    coordinator = o[1]
    s0 = coordinator.serialize()
    case["raw"] = s0
    # a reader that relies on the PSBT's own xpubs (no network argument)
    o2 = outcome(lambda: PSBT.parse(io.BytesIO(s0)).serialize())
    if o2[0] == "exc":
        ctx.violation("helper-built:reparse-without-network-raises", o2[1], case)
    elif o2[1] != s0:
        ctx.violation("helper-built:reparse-without-network-changes-bytes", "parse(serialize(x)).serialize() != serialize(x) when parse is not told the network", case)
    signers = rng.sample(range(n), m)
    for who in signers:
        def sign_copy(who=who):
            c = PSBT.parse(io.BytesIO(s0), network=network)
            c.sign(roots[who])
            return c
        oc = outcome(sign_copy)
        if oc[0] == "exc":
            ctx.violation("helper-built:signing-a-copy-raises", oc[1], case)
            return
        om = outcome(coordinator.combine, oc[1])
        if om[0] == "exc":
            ctx.violation("helper-built:combine-into-built-object-raises", om[1], case)
            return
        s1 = coordinator.serialize()  # contract: BIP174 reader, no duplicate keys
        o3 = outcome(lambda: PSBT.parse(io.BytesIO(s1), network=network).serialize())
        if o3[0] == "exc":
            ctx.violation("helper-built:combined-object-not-reparseable", o3[1], dict(case, raw=s1))
        elif o3[1] != s1:
            ctx.violation("helper-built:combined-object-roundtrip-differs", "parse(serialize(combined)).serialize() differs", dict(case, raw=s1))
    of = outcome(lambda: (coordinator.finalize(), coordinator.final_tx())[1])
    if of[0] == "exc":
        ctx.violation("helper-built:final-tx-refused-with-enough-signers", of[1], case)
    ctx.case((s0, "helper-built"))


# ---- shards ---------------------------------------------------------------------------------------------------------
PLAN = [
    # kind, m, n, inputs
    ("p2sh", 2, 3, 2), ("p2wsh", 2, 3, 1), ("p2sh-p2wsh", 2, 2, 2), ("p2sh", 1, 2, 1), ("p2wsh", 1, 1, 3), ("p2sh-p2wsh", 1, 3, 1),
    ("p2wsh", 3, 3, 1), ("p2sh", 2, 2, 1), ("p2wsh", 2, 4, 1), ("p2sh", 3, 4, 1), ("p2sh-p2wsh", 3, 4, 1), ("p2wsh", 1, 2, 2),
    ("p2sh", 1, 1, 2), ("p2sh-p2wsh", 2, 3, 1), ("p2wsh", 4, 4, 1), ("p2sh", 1, 3, 1),
]


def shards(tier, seed):
    n = 16
    q = tier == "quick"
    return [{"name": "psbt", "idx": i, "n": n, "rounds": 1 if q else 5, "budget_s": 1500 if q else 6000, "hard_timeout_s": 2400 if q else 9000} for i in range(n)]


def run_shard(desc, ctx):
    ec.selfcheck()
    rp.selfcheck()
    sh.selfcheck()
    install()
    rng = ctx.rng()
    idx = desc["idx"]
    quick = ctx.tier == "quick"
    for rnd in range(desc["rounds"]):
        kind, m, n, n_in = PLAN[(idx + rnd * 5) % len(PLAN)]
        if quick and n >= 4:
            kind, m, n, n_in = PLAN[(idx + 3) % 6]
        if quick:
            n_in = 1 if n >= 3 else min(n_in, 2)
        net = "mainnet" if (idx + rnd) % 2 == 0 else "testnet"
        one_wallet(ctx, rng, kind, m, n, net, n_in, segwit_flag=(idx + rnd) % 3 == 0, quick=quick)
        sk = ["p2pkh", "p2wpkh", "p2sh-p2wpkh"][(idx + rnd) % 3]
        one_wallet(ctx, rng, sk, 1, 1, "testnet" if net == "mainnet" else "mainnet", 1 if quick else rng.choice([1, 2, 3]), segwit_flag=(idx + rnd) % 2 == 0, quick=quick)
        from_signed_tx(ctx, rng, ["p2pkh", "p2wpkh", "p2sh-p2wpkh"][(idx + rnd + 1) % 3], net)
        hm, hn = [(1, 1), (1, 2), (2, 2), (2, 3)][(idx + rnd) % 4]
        helper_built_flow(ctx, rng, net, hm, hn, ["m/45'/0", "m/48'/%d'/0'/1'" % (0 if net == "mainnet" else 1)][(idx // 2 + rnd) % 2])
        if ctx.out_of_time():
            return


def replay(case, ctx):
    from props.psbtlib import reparse

    install()
    op = case.get("op")
    if op == "psbt-bytes":
        raw = case["raw"]
        o = outcome(lambda: reparse(raw, case.get("network")).serialize())
        ctx.monitor("psbt-roundtrip")
        stage = case.get("stage", "")
        if stage.startswith("badsig"):
            if o[0] == "ok":
                ctx.violation("psbt-loads-invalid-partial-sig:" + stage.split(":")[1], "replay", case)
        elif o[0] == "exc":
            ctx.violation(f"psbt-roundtrip-raises:{stage}", o[1], case)
        elif o[1] != raw:
            ctx.violation(f"psbt-roundtrip-bytes-differ:{stage}", "replay", case)
    elif op in ("history", "history-pair", "wallet"):
        rng = ctx.rng("replay")
        one_wallet(ctx, rng, case.get("kind", "p2wsh"), case.get("m", 1), case.get("n", 1), case.get("network", "mainnet"), 1, False, True)
    elif op == "helper-built":
        helper_built_flow(ctx, ctx.rng("replay"), case.get("network", "testnet"), case.get("m", 2), case.get("n", 3), case.get("base_path", "m/45'/0"))
    elif op == "from-signed":
        # re-run the flow for the same wallet kind (the wallet itself is rebuilt from the shard's PRNG in a full run)
        from_signed_tx(ctx, ctx.rng("replay"), case.get("kind", "p2pkh"), case.get("network", "mainnet"))
