"""C13 - MuSig aggregation yields valid BIP340 signatures; k-of-n tapscript trees cover all subsets.

Monitors (contracts on the real functions, see vmon.contracts):
  MuSigTapScript.__init__       aggregate point == reference key aggregation of the MuSig2 draft the
                                library implements (sorted x-only keys, second coefficient 1); leaf script
  MuSigTapScript.nonce_sums     == reference point sums
  MuSigTapScript.compute_r/compute_k/sign   well-formed results (point on curve, scalars in [0, n))
  MuSigTapScript.get_signature  a returned signature verifies under the reference BIP340 verifier for the
                                (tweaked) aggregate key; an honest sum must be accepted; a sum with a missing
                                or altered partial signature must not yield a valid signature
  TapRootMultiSig.multi_leaf_tree / musig_tree / single_leaf   leaf <-> k-subset bijection
Boundary monitors in the driver: aggregate key equal for every listing order tried; R == (sum of
effective nonces)*G; leaf spends (multisig leaf via initialize/finalize_p2tr_multisig, MuSig leaf via
aggregated signature, key path via tweaked aggregate) accepted by Tx.verify_input.
"""
import itertools

from ref import ec
from ref import taproot as rt
from vmon import contracts
from vmon.core import outcome

PROPERTY_ID = "C13"
RULE = (
    "cases = MuSig sessions (key set of 2..5 secrets, listing order, nonce pairs, 32-byte message, optional merkle "
    "root) driven through the real MuSigTapScript functions, each followed by negative variants (one partial "
    "signature left out / altered); and k-of-n trees for every (k, n), n <= 5, with sampled leaf spends; a session is "
    "decided by the reference BIP340 verifier (ref/ec.py) on the signature returned by get_signature under the "
    "reference (tweaked) aggregate key; distinct = distinct concrete inputs by hash; non-trivial = the final "
    "signature was produced and verified by the reference, or (negative) the altered sum differs mod n"
)
ASSUMPTIONS = [
    "an aggregate nonce R at infinity (sum of all effective nonces = 0) cannot be steered without a hash preimage and is not "
    "claimed; nonce components that cancel across signers (k and n-k) are legal inputs and are exercised",
    "key sets are sets: duplicate keys (or a key together with its negation) are outside the statement",
    "a single-key aggregate is refused by the constructor (IndexError); recorded, vacuous",
    "nonce coefficient and partial signatures are internal to the library's draft: only the final signature, the "
    "aggregate key and the nonce consistency R == sum(k_i)*G are asserted",
    "signature hashes come from the library's own sig_hash (C05 decides their correctness)",
]

COMBOS = ["combo:agg-%d:signer-%d:R-%d" % (a, s, r) for a in (0, 1) for s in (0, 1) for r in (0, 1)]
NEGATIVES = ["missing-partial", "partial+1", "partial-bitflip", "partial-negated", "partial-random", "partial-from-other-message"]
KN = [(k, n) for n in range(2, 6) for k in range(1, n + 1)]

GATES = {
    "object-histories": ["reuse:musig-object-across-merkle-roots", "leaf-spend:multi-input-init-all-then-finalize-all"],
    "mixed-sighash-flags": ["leaf-spend:mixed-sighash-flags"],
    "recreated-leaf-queries": ["leaf-spend:control-block-asked-with-recreated-leaf", "leaf-spend:control-block-asked-with-recreated-leaf:k=n"],
    "monitors-ran": [
        "MuSigTapScript.__init__", "MuSigTapScript.nonce_sums", "MuSigTapScript.compute_r", "MuSigTapScript.compute_k",
        "MuSigTapScript.sign", "MuSigTapScript.get_signature", "MuSigTapScript.generate_nonces",
        "TapRootMultiSig.multi_leaf_tree", "TapRootMultiSig.musig_tree", "TapRootMultiSig.single_leaf",
    ],
    "boundary-monitors-ran": ["order-independence", "nonce-consistency", "verify_input:multisig-leaf", "verify_input:musig-leaf", "verify_input:musig-keypath"],
    "parity-combinations": COMBOS,
    "external-key-parities": ["session:tweaked:ext-0", "session:tweaked:ext-1", "session:plain:agg-0", "session:plain:agg-1"],
    "full-combinations": ["full:agg-%d:R-%d:ext-%d" % (a, r, e) for a in (0, 1) for r in (0, 1) for e in (0, 1)],
    "key-set-sizes": ["keys:%d" % n for n in range(2, 6)],
    "negatives": ["neg:" + x for x in NEGATIVES] + ["neg-rejected:" + x for x in NEGATIVES],
    "honest-accepted": ["session:honest-accepted"],
    "trees": ["tree:k=%d:n=%d" % kn for kn in KN] + ["musig-tree:k=%d:n=%d" % kn for kn in KN if kn[0] >= 2],
    "library-nonces": ["nonces:generate_nonces", "nonces:driver"],
    "degenerate-nonces": ["nonces:cancelling-first-components", "nonces:cancelling-second-components"],
    "repository-tests-under-contracts": {"quick": [], "thorough": ["repotests:run"]},
}

_state = {"expect": None, "neg": None, "nonce_queue": None, "rng": None}


def anchors():
    from buidl import taproot, tx

    t = taproot.MuSigTapScript
    return [
        t.__init__, t.generate_nonces, t.nonce_sums, t.compute_coefficient, t.compute_k, t.compute_r, t.sign, t.get_signature,
        taproot.TapRootMultiSig.multi_leaf_tree, taproot.TapRootMultiSig.musig_tree, taproot.TapRootMultiSig.single_leaf,
        taproot.MultiSigTapScript.__init__, tx.Tx.initialize_p2tr_multisig, tx.Tx.finalize_p2tr_multisig,
    ]


def _pt(point):
    if point is None or point.x is None:
        return None
    return (point.x.num, point.y.num)


def _arg(args, kwargs, pos, name, default=None):
    if len(args) > pos:
        return args[pos]
    return kwargs.get(name, default)


def _xonlys(points):
    out = []
    for p in points:
        pt = _pt(p)
        if pt is None:
            return None
        out.append(ec.b32(pt[0]))
    return out


def _ext_key(agg_pt, root):
    """Reference key the final signature must verify under: (x-only bytes, point)."""
    if root:
        q, _ = rt.output_key(ec.b32(agg_pt[0]), bytes(root))
        return ec.b32(q[0]), q
    return ec.b32(agg_pt[0]), agg_pt


# ---- contracts --------------------------------------------------------------------------------------
def post_init(args, kwargs, pre, out):
    ctx = contracts.ctx()
    self = args[0]
    points = _arg(args, kwargs, 1, "points")
    locktime, sequence = _arg(args, kwargs, 2, "locktime"), _arg(args, kwargs, 3, "sequence")
    try:
        xs = _xonlys(list(points))
    except Exception:  # noqa: BLE001
        xs = None
    if xs is None:
        return NotImplemented
    if len(xs) < 2:
        ctx.count("observed:single-key-aggregate:" + ("accepted" if out[0] == "ok" else "refused"))
        return NotImplemented
    if len(set(xs)) != len(xs):
        ctx.count("observed:duplicate-keys")
        return NotImplemented
    case = {"op": "keyagg", "xonlys": xs}
    if out[0] == "exc":
        ctx.violation("key-aggregation-raises", f"MuSigTapScript(...) raised {out[1]!r}", case)
        return
    q, coefs = rt.musig_keyagg(xs)
    got = _pt(self.point)
    if got != q:
        # classify: which coefficient rule was not followed
        ks = sorted(xs)
        lib = {bytes(b): c % ec.N for b, c in getattr(self, "coef_lookup", {}).items()}
        if lib.get(ks[1]) != 1:
            mech = "aggregate-key-wrong:second-key-coefficient-not-1"
        elif lib.get(ks[0]) == 1:
            mech = "aggregate-key-wrong:first-key-coefficient-forced"
        elif got is not None and q is not None and got[0] == q[0]:
            mech = "aggregate-key-wrong:parity"
        else:
            mech = "aggregate-key-wrong"
        ctx.violation(mech, f"aggregate {got} expected {q}", case)
    if locktime is None and sequence is None and q is not None:
        if list(self.commands) != [ec.b32(q[0]), 0xAC]:
            ctx.violation("musig-leaf-script-wrong", "leaf script is not <aggregate x-only key> OP_CHECKSIG", case)
    ctx.count("keys:%d" % len(xs))
    ctx.case(case)


def post_nonce_sums(args, kwargs, pre, out):
    ctx = contracts.ctx()
    pairs = _arg(args, kwargs, 1, "nonce_point_pairs")
    try:
        a = [(_pt(p[0]), _pt(p[1])) for p in pairs]
    except Exception:  # noqa: BLE001
        return NotImplemented
    if not a or any(x is None or y is None for x, y in a):
        return NotImplemented
    s1 = s2 = ec.INF
    for x, y in a:
        s1, s2 = ec.add(s1, x), ec.add(s2, y)
    if s1 is ec.INF or s2 is ec.INF:
        return NotImplemented
    case = {"op": "nonce-sums", "pairs": [[ec.sec(x), ec.sec(y)] for x, y in a]}
    if out[0] == "exc":
        ctx.violation("nonce-sums-raises", f"nonce_sums raised {out[1]!r}", case)
        return
    if (_pt(out[1][0]), _pt(out[1][1])) != (s1, s2):
        ctx.violation("nonce-sums-wrong", "nonce sums differ from the reference point sums", case)
    ctx.case(case)


def post_compute_r(args, kwargs, pre, out):
    ctx = contracts.ctx()
    if out[0] == "exc":
        ctx.count("observed:compute_r-raised")
        return
    pt = _pt(out[1])
    if pt is None or not ec.on_curve(pt):
        ctx.violation("aggregate-nonce-not-a-point", f"compute_r returned {pt}", {"op": "compute-r"})


def post_compute_k(args, kwargs, pre, out):
    ctx = contracts.ctx()
    if out[0] == "exc":
        ctx.count("observed:compute_k-raised")
        return
    if not isinstance(out[1], int) or not 0 <= out[1] < ec.N:
        ctx.violation("effective-nonce-out-of-range", f"compute_k returned {out[1]!r}", {"op": "compute-k"})


def post_sign(args, kwargs, pre, out):
    ctx = contracts.ctx()
    self = args[0]
    priv = _arg(args, kwargs, 1, "private_key")
    r = _arg(args, kwargs, 3, "r")
    if out[0] == "exc":
        if _state["expect"] == "valid":
            ctx.violation("partial-signing-raises", f"sign raised {out[1]!r}", {"op": "sign"})
        return
    if not isinstance(out[1], int) or not 0 <= out[1] < ec.N:
        ctx.violation("partial-signature-out-of-range", f"sign returned {out[1]!r}", {"op": "sign"})
    a, s, rp = _pt(self.point), _pt(priv.point), _pt(r)
    if a and s and rp:
        ctx.count("combo:agg-%d:signer-%d:R-%d" % (a[1] & 1, s[1] & 1, rp[1] & 1))


def post_get_signature(args, kwargs, pre, out):
    ctx = contracts.ctx()
    self = args[0]
    s_sum = _arg(args, kwargs, 1, "s_sum")
    r = _arg(args, kwargs, 2, "r")
    msg = _arg(args, kwargs, 3, "sig_hash")
    root = _arg(args, kwargs, 4, "merkle_root", b"")
    agg, rp = _pt(self.point), _pt(r)
    if agg is None or rp is None or not isinstance(msg, (bytes, bytearray)) or not isinstance(s_sum, int):
        return NotImplemented
    try:
        key32, ext = _ext_key(agg, root)
    except ValueError:
        return NotImplemented
    cls = "agg-%d:R-%d:%s" % (agg[1] & 1, rp[1] & 1, ("ext-%d" % (ext[1] & 1)) if root else "plain")
    case = {
        "op": "get-signature", "agg": ec.sec(agg), "s_sum": s_sum, "r": ec.sec(rp), "msg": bytes(msg), "root": bytes(root or b""),
        "expect": _state["expect"], "neg": _state["neg"], "session": _state.get("session"),
    }
    expect = _state["expect"]
    if out[0] == "ok":
        sig = out[1].serialize()
        good = ec.schnorr_verify(key32, bytes(msg), sig)
        if not good:
            ctx.violation("get-signature-returns-invalid-signature:" + cls, "returned signature fails the reference BIP340 verifier for the (tweaked) aggregate key", case)
        if expect == "invalid" and good:
            ctx.violation("altered-aggregate-verifies:" + str(_state["neg"]), "an aggregate with a missing/altered partial signature is a valid BIP340 signature", case)
        elif expect == "invalid":
            ctx.violation("altered-aggregate-accepted:" + str(_state["neg"]), "get_signature returned for an aggregate with a missing/altered partial signature", case)
        if expect == "valid" and good:
            ctx.count("session:honest-accepted")
            ctx.count("full:agg-%d:R-%d:ext-%d" % (agg[1] & 1, rp[1] & 1, ext[1] & 1))
            ctx.count(("session:tweaked:ext-%d" % (ext[1] & 1)) if root else ("session:plain:agg-%d" % (agg[1] & 1)))
    else:
        if expect == "valid":
            ctx.violation("honest-aggregate-rejected:" + cls, f"get_signature raised {out[1]!r} for the sum of all honest partial signatures", case)
        elif expect == "invalid":
            ctx.rejected_by_exception += 1
            ctx.count("neg-rejected:" + str(_state["neg"]))
        else:
            return NotImplemented
    ctx.case(case)


def post_generate_nonces(args, kwargs, pre, out):
    ctx = contracts.ctx()
    if out[0] == "exc":
        ctx.violation("generate-nonces-raises", f"generate_nonces raised {out[1]!r}", {"op": "generate-nonces"})
        return
    (k1, k2), (r1, r2) = out[1]
    if _pt(r1) != ec.mul(k1) or _pt(r2) != ec.mul(k2):
        ctx.violation("nonce-point-is-not-k*G", "generate_nonces returned points that are not k*G", {"op": "generate-nonces", "k1": k1, "k2": k2})
    ctx.count("nonces:generate_nonces")


def _key_set(script):
    return frozenset(c for c in script.commands if isinstance(c, (bytes, bytearray)) and len(c) == 32)


def _recreated(leaf):
    from buidl.taproot import TapLeaf

    return TapLeaf(leaf.tap_script, leaf.tapleaf_version)


def _fresh_leaves(node):
    from buidl.taproot import TapLeaf

    if isinstance(node, TapLeaf):
        return [node]
    return _fresh_leaves(node.left) + _fresh_leaves(node.right)


def _post_tree(kind, args, kwargs, pre, out):
    ctx = contracts.ctx()
    self = args[0]
    xs = _xonlys(self.points)
    if xs is None or len(set(xs)) != len(xs):
        return NotImplemented
    k, n = self.k, len(xs)
    case = {"op": "tree", "kind": kind, "k": k, "xonlys": xs}
    if kind == "musig" and k < 2:
        ctx.count("observed:musig-tree-k=1:" + ("accepted" if out[0] == "ok" else "refused"))
        return NotImplemented
    if out[0] == "exc":
        ctx.violation("tree-generator-raises:" + kind, f"{kind} tree raised {out[1]!r}", case)
        return
    leaves = _fresh_leaves(out[1])
    subsets = [frozenset(c) for c in itertools.combinations(xs, k)]
    if kind == "single":
        subsets = [frozenset(xs)]
    owners = {}
    agg_of = {ec.b32(rt.musig_keyagg(sorted(s))[0][0]): s for s in subsets} if kind == "musig" else {}
    for lf in leaves:
        if kind == "musig":
            cmds = [c for c in lf.tap_script.commands if isinstance(c, (bytes, bytearray)) and len(c) == 32]
            owner = agg_of.get(bytes(cmds[0])) if len(cmds) == 1 else None
        else:
            owner = _key_set(lf.tap_script)
            if owner not in subsets:
                owner = None
            # the threshold encoded in the leaf must be the number of keys of the subset it serves
            want_k = len(owner) if owner else None
            if owner and kind == "multi" and len(owner) > 1 and lf.tap_script.commands[-2:] != [0x50 + want_k, 0x87]:
                ctx.violation("leaf-threshold-wrong", "multisig leaf does not end in <k> OP_NUMEQUAL", case)
            if owner and kind == "single" and n > 1 and lf.tap_script.commands[-2:] != [0x50 + k, 0x87]:
                ctx.violation("leaf-threshold-wrong", "single leaf does not end in <k> OP_NUMEQUAL", case)
        if owner is None:
            ctx.violation("leaf-without-subset:" + kind, "a leaf of the tree belongs to no k-subset of the keys", case)
            continue
        owners[owner] = owners.get(owner, 0) + 1
    for s in subsets:
        c = owners.get(s, 0)
        if c == 0:
            ctx.violation("subset-without-leaf:" + kind, f"a {k}-subset of the {n} keys has no leaf", case)
        elif c > 1:
            ctx.violation("subset-with-several-leaves:" + kind, f"a {k}-subset of the {n} keys owns {c} leaves", case)
    if kind == "multi":
        ctx.count("tree:k=%d:n=%d" % (k, n))
    elif kind == "musig":
        ctx.count("musig-tree:k=%d:n=%d" % (k, n))
    ctx.case(case)


def post_multi_leaf_tree(args, kwargs, pre, out):
    return _post_tree("multi", args, kwargs, pre, out)


def post_musig_tree(args, kwargs, pre, out):
    return _post_tree("musig", args, kwargs, pre, out)


def post_single_leaf(args, kwargs, pre, out):
    return _post_tree("single", args, kwargs, pre, out)


def install():
    from buidl import taproot
    import buidl.tx  # noqa: F401
    import buidl.witness  # noqa: F401

    t = taproot.MuSigTapScript
    contracts.install(t, "__init__", post_init)
    contracts.install(t, "nonce_sums", post_nonce_sums)
    contracts.install(t, "compute_r", post_compute_r)
    contracts.install(t, "compute_k", post_compute_k)
    contracts.install(t, "sign", post_sign)
    contracts.install(t, "get_signature", post_get_signature)
    contracts.install(t, "generate_nonces", post_generate_nonces)
    contracts.install(taproot.TapRootMultiSig, "multi_leaf_tree", post_multi_leaf_tree)
    contracts.install(taproot.TapRootMultiSig, "musig_tree", post_musig_tree)
    contracts.install(taproot.TapRootMultiSig, "single_leaf", post_single_leaf)
    # library entropy: nonces come from the per-case queue / the shard's seeded generator
    taproot.randbelow = _randbelow


def _randbelow(n):
    q = _state["nonce_queue"]
    if q:
        return q.pop(0) % n
    return _state["rng"].randrange(1, n)


# ---- one MuSig session ----------------------------------------------------------------------------------
def _lib_point(pt):
    from buidl.pecc import S256Point

    return S256Point(pt[0], pt[1])


def run_session(ctx, spec):
    """spec: secrets (listing order), signer_order, nonces [[k1, k2], ...] (per listed key), msg, root,
    use_generate (library generate_nonces with the nonces queued into the entropy stub), perms (extra listing
    orders to compare the aggregate key with), negatives ([(name, signer index, parameter)])."""
    from buidl.pecc import PrivateKey
    from buidl.taproot import MuSigTapScript

    secrets, msg, root = spec["secrets"], spec["msg"], spec["root"] or b""
    n = len(secrets)
    _state["session"] = spec
    _state["expect"], _state["neg"] = None, None
    privs = []
    for d in secrets:
        o = outcome(PrivateKey, d)
        if o[0] != "ok":
            return
        privs.append(o[1])
    points = [p.point for p in privs]
    mo = outcome(MuSigTapScript, points)
    if mo[0] != "ok":
        return
    musig = mo[1]
    # order independence of the aggregate key
    for perm in spec.get("perms", []):
        po = outcome(MuSigTapScript, [points[i] for i in perm])
        if po[0] == "ok":
            ctx.monitor("order-independence")
            ctx.case({"op": "order", "secrets": secrets, "perm": perm})
            if _pt(po[1].point) != _pt(musig.point) or po[1].commands != musig.commands:
                ctx.violation("aggregate-key-depends-on-order", f"listing order {perm} gives another aggregate key", {"op": "session", "session": spec})
    # nonces
    secret_pairs, point_pairs = [], []
    for i in range(n):
        k1, k2 = spec["nonces"][i]
        if spec.get("use_generate"):
            _state["nonce_queue"] = [k1, k2]
            go = outcome(musig.generate_nonces)
            _state["nonce_queue"] = None
            if go[0] != "ok":
                return
            secret_pairs.append(go[1][0])
            point_pairs.append(go[1][1])
        else:
            ctx.count("nonces:driver")
            secret_pairs.append((k1, k2))
            point_pairs.append((_lib_point(ec.mul(k1)), _lib_point(ec.mul(k2))))
    so = outcome(musig.nonce_sums, point_pairs)
    if so[0] != "ok":
        ctx.violation("honest-session-fails:nonce_sums-raises", f"nonce_sums raised {so[1]}", {"op": "session", "session": spec})
        return
    if spec.get("cancel") is not None:
        ctx.count("nonces:cancelling-%s-components" % ("first" if spec["cancel"] == 0 else "second"))
    ro = outcome(musig.compute_r, so[1], msg)
    if ro[0] != "ok":
        # every nonce is in [1, n-1]: the honest session must go through
        degenerate = _pt(so[1][0]) is None or _pt(so[1][1]) is None
        ctx.violation(
            "honest-session-fails:nonce-sum-is-infinity" if degenerate else "honest-session-fails:compute_r-raises",
            f"compute_r raised {ro[1]} for nonces in [1, n-1]" + (" whose first or second components sum to zero" if degenerate else ""),
            {"op": "session", "session": spec},
        )
        return
    r = ro[1]
    _state["expect"] = "valid"
    partial = {}
    ks = {}
    for i in spec["signer_order"]:
        ko = outcome(musig.compute_k, secret_pairs[i], so[1], msg)
        if ko[0] != "ok":
            _state["expect"] = None
            ctx.violation("honest-session-fails:compute_k-raises", f"compute_k raised {ko[1]}", {"op": "session", "session": spec})
            return
        ks[i] = ko[1]
        po = outcome(musig.sign, privs[i], ko[1], r, msg, root)
        if po[0] != "ok":
            _state["expect"] = None
            return
        partial[i] = po[1]
    ctx.monitor("nonce-consistency")
    if ec.mul(sum(ks.values()) % ec.N) != _pt(r):
        ctx.violation("aggregate-nonce-inconsistent", "R != (sum of the signers' effective nonces)*G", {"op": "session", "session": spec})
    s_sum = sum(partial.values())
    outcome(musig.get_signature, s_sum, r, msg, root)  # decided by the contract
    # negatives: one partial signature missing / altered
    for name, j, param in spec.get("negatives", []):
        j %= n
        if name == "missing-partial":
            bad = s_sum - partial[j]
        elif name == "partial+1":
            bad = s_sum + 1
        elif name == "partial-bitflip":
            bad = s_sum - partial[j] + (partial[j] ^ (1 << (param % 256)))
        elif name == "partial-negated":
            bad = s_sum - 2 * partial[j]
        elif name == "partial-random":
            bad = s_sum - partial[j] + (param % ec.N)
        elif name == "partial-from-other-message":
            other = bytes([msg[0] ^ 1]) + msg[1:]
            _state["expect"] = None
            oo = outcome(musig.sign, privs[j], ks[j], r, other, root)
            if oo[0] != "ok":
                continue
            bad = s_sum - partial[j] + oo[1]
        else:
            continue
        if (bad - s_sum) % ec.N == 0:
            ctx.count("observed:alteration-is-identity-mod-n")
            continue
        ctx.count("neg:" + name)
        _state["expect"], _state["neg"] = "invalid", name
        outcome(musig.get_signature, bad, r, msg, root)
    _state["expect"], _state["neg"] = None, None


def gen_session(rng, n, serial):
    secrets = []
    while len(secrets) < n:
        d = rng.choice([1, 2, 3, ec.N - 1, ec.N - 2, ec.N // 2]) if rng.random() < 0.05 else rng.randrange(1, ec.N)
        if d not in secrets and (ec.N - d) not in secrets:
            secrets.append(d)
    nonces = []
    for i in range(n):
        k1 = rng.choice([1, ec.N - 1, 2]) if rng.random() < 0.05 else rng.randrange(1, ec.N)
        k2 = rng.choice([1, ec.N - 1, 2]) if rng.random() < 0.05 else rng.randrange(1, ec.N)
        nonces.append([k1, k2])
    # degenerate but legal nonce choices: the first (or second) nonce components of all signers sum to zero
    cancel = {5: 0, 1: 1}.get(serial % 8)
    if cancel is not None:
        rest = sum(p[cancel] for p in nonces[:-1]) % ec.N
        if rest != 0:
            nonces[-1][cancel] = ec.N - rest
    order = list(range(n))
    rng.shuffle(order)
    perms = [list(reversed(range(n)))]
    p2 = list(range(n))
    rng.shuffle(p2)
    if n > 2 and p2 != list(range(n)) and p2 != perms[0] and serial % 2 == 0:
        perms.append(p2)
    negs = []
    names = NEGATIVES[serial % len(NEGATIVES):] + NEGATIVES[: serial % len(NEGATIVES)]
    for name in names[:3]:
        negs.append((name, rng.randrange(n), rng.getrandbits(256)))
    return {
        "secrets": secrets, "signer_order": order, "nonces": nonces,
        "msg": {7: b"\x00" * 32, 11: b"\xff" * 32}.get(serial % 16) or rng.randbytes(32),
        "root": rng.randbytes(32) if serial % 2 else b"", "use_generate": serial % 3 == 0, "perms": perms, "negatives": negs,
        "cancel": cancel,
    }


# ---- k-of-n trees and leaf spends --------------------------------------------------------------------------
def _spend_tx(script_pubkey):
    from buidl.tx import Tx, TxIn, TxOut

    tx_in = TxIn(b"\x42" * 32, 1)
    tx_in._value = 1000000
    tx_in._script_pubkey = script_pubkey
    return Tx(2, [tx_in], [TxOut(990000, script_pubkey)], 0, network="signet", segwit=True)


def _musig_sign_all(ctx, musig, privs, msg, root, nonces):
    """A complete session among `privs` (all keys of musig); returns the SchnorrSignature or None."""
    secret_pairs = [tuple(p) for p in nonces]
    point_pairs = [(_lib_point(ec.mul(a)), _lib_point(ec.mul(b))) for a, b in secret_pairs]
    so = outcome(musig.nonce_sums, point_pairs)
    if so[0] != "ok":
        return None
    ro = outcome(musig.compute_r, so[1], msg)
    if ro[0] != "ok":
        return None
    _state["expect"] = "valid"
    s_sum = 0
    for pair, priv in zip(secret_pairs, privs):
        ko = outcome(musig.compute_k, pair, so[1], msg)
        po = outcome(musig.sign, priv, ko[1], ro[1], msg, root) if ko[0] == "ok" else ("exc", "")
        if po[0] != "ok":
            _state["expect"] = None
            return None
        s_sum += po[1]
    go = outcome(musig.get_signature, s_sum, ro[1], msg, root)
    _state["expect"] = None
    return go[1] if go[0] == "ok" else None


def run_tree(ctx, spec):
    """spec: secrets, k, subsets (list of index tuples to spend), nonces (flat list of ints), musig (bool)."""
    from buidl.helper import SIGHASH_DEFAULT
    from buidl.pecc import PrivateKey
    from buidl.taproot import MuSigTapScript, TapRootMultiSig

    secrets, k = spec["secrets"], spec["k"]
    n = len(secrets)
    _state["session"] = None
    privs = [PrivateKey(d) for d in secrets]
    points = [p.point for p in privs]
    nonce_iter = iter(spec["nonces"])
    to = outcome(TapRootMultiSig, points, k)
    if to[0] != "ok":
        if n >= 2 and 1 <= k <= n:
            ctx.violation("tree-constructor-raises", f"TapRootMultiSig({n} keys, k={k}) raised {to[1]}", {"op": "tree", "tree": spec})
        else:
            ctx.count("observed:TapRootMultiSig-refused:n=%d" % n)
        return
    trm = to[1]
    internal = trm.default_internal_pubkey
    outcome(trm.single_leaf)
    mo = outcome(trm.multi_leaf_tree)
    if mo[0] != "ok":
        return
    tree = mo[1]
    root = outcome(tree.hash)[1]
    spk = internal.p2tr_script(root)
    leaves = _fresh_leaves(tree)
    for subset in spec["subsets"]:
        want = frozenset(points[i].xonly() for i in subset)
        mine = [lf for lf in leaves if _key_set(lf.tap_script) == want]
        if len(mine) != 1:
            continue  # reported by the tree contract
        leaf = mine[0]
        tx = _spend_tx(spk)
        case = {"op": "tree", "tree": spec, "subset": list(subset), "leaf": "multisig"}
        # the spender re-creates the leaf of its subset (an equal, distinct object) and asks the tree with that
        co = outcome(tree.control_block, internal, _recreated(leaf))
        ctx.count("leaf-spend:control-block-asked-with-recreated-leaf" + (":k=n" if k == n else ""))
        if co[0] != "ok" or co[1] is None:
            ctx.violation("leaf-spend-fails:no-control-block", "no control block for a subset's leaf", case)
            continue
        io = outcome(tx.initialize_p2tr_multisig, 0, co[1], leaf.tap_script)
        if io[0] != "ok":
            ctx.violation("leaf-spend-fails:initialize", f"initialize_p2tr_multisig raised {io[1]}", case)
            continue
        sigs = []
        hash_type = spec.get("hash_type", 0)  # 0 = SIGHASH_DEFAULT (64-byte signatures), 1 = SIGHASH_ALL (65 bytes)
        # the signers of one leaf may each choose their own sighash flag (mixed 64- and 65-byte signatures)
        hts = [hash_type] * len(subset)
        if spec.get("mixed_flags") and len(subset) >= 2:
            hts = [[0, 1, 0x81, 2, 0x82][(j + spec.get("flag_offset", 0)) % 5] for j in range(len(subset))]
            ctx.count("leaf-spend:mixed-sighash-flags")
        for j, i in enumerate(subset):
            so = outcome(tx.get_sig_taproot, 0, privs[i], 1, hts[j])
            if so[0] == "ok":
                sigs.append(so[1])
        if spec.get("empty_sig"):
            sigs.insert(len(sigs) // 2, b"")  # an absent signature in the list handed to finalize is skipped
        fo = outcome(tx.finalize_p2tr_multisig, 0, sigs)
        vo = outcome(tx.verify_input, 0)
        ctx.monitor("verify_input:multisig-leaf")
        ctx.case(case)
        if fo != ("ok", True) or vo != ("ok", True):
            ctx.violation("leaf-spend-fails:multisig-leaf", f"finalize -> {fo}, verify_input -> {vo} for a leaf signed by its own subset", case)
        else:
            # cross-check the accepted witness with the reference verifier
            items = tx.tx_ins[0].witness.items
            keys = sorted(want)
            valid = 0
            for key, sig in zip(keys, reversed(items[:-2])):
                if len(sig) not in (64, 65):
                    continue
                with contracts.suspended():
                    msg = tx.sig_hash(0, 0 if len(sig) == 64 else sig[-1])
                if ec.schnorr_verify(key, msg, sig[:64]):
                    valid += 1
            if valid != k or not rt.verify_commitment(items[-1], items[-2], spk.commands[1]):
                ctx.violation("leaf-spend-accepted-but-reference-rejects", f"{valid} of {k} signatures valid by the reference", case)
    # MuSig leaves (k >= 2)
    if spec.get("musig") and k >= 2:
        mo = outcome(trm.musig_tree)
        if mo[0] == "ok":
            mtree = mo[1]
            mroot = outcome(mtree.hash)[1]
            mspk = internal.p2tr_script(mroot)
            mleaves = _fresh_leaves(mtree)
            for subset in spec["subsets"][:1]:
                sub_points = [points[i] for i in subset]
                so = outcome(MuSigTapScript, sub_points)
                if so[0] != "ok":
                    continue
                musig = so[1]
                mine = [lf for lf in mleaves if lf.tap_script.commands == musig.commands]
                case = {"op": "tree", "tree": spec, "subset": list(subset), "leaf": "musig"}
                if len(mine) != 1:
                    continue
                leaf = mine[0]
                tx = _spend_tx(mspk)
                co = outcome(mtree.control_block, internal, _recreated(leaf))
                if co[0] != "ok" or co[1] is None:
                    ctx.violation("leaf-spend-fails:no-control-block", "no control block for a subset's MuSig leaf", case)
                    continue
                tx.tx_ins[0].witness.items = [leaf.tap_script.raw_serialize(), co[1].serialize()]
                with contracts.suspended():
                    msg = tx.sig_hash(0, SIGHASH_DEFAULT)
                nonces = [[next(nonce_iter), next(nonce_iter)] for _ in subset]
                sig = _musig_sign_all(ctx, musig, [privs[i] for i in subset], msg, b"", nonces)
                ctx.monitor("verify_input:musig-leaf")
                ctx.case(case)
                if sig is None:
                    ctx.violation("leaf-spend-fails:musig-leaf", "the subset could not produce an aggregate signature for its leaf", case)
                    continue
                tx.tx_ins[0].witness.items.insert(0, sig.serialize())
                vo = outcome(tx.verify_input, 0)
                if vo != ("ok", True):
                    ctx.violation("leaf-spend-fails:musig-leaf", f"verify_input -> {vo} for a MuSig leaf signed by its own subset", case)
            # key path with the tweaked n-of-n aggregate
            if spec.get("keypath"):
                ao = outcome(MuSigTapScript, points)
                if ao[0] == "ok":
                    tx = _spend_tx(mspk)
                    with contracts.suspended():
                        msg = tx.sig_hash(0, SIGHASH_DEFAULT)
                    nonces = [[next(nonce_iter), next(nonce_iter)] for _ in points]
                    sig = _musig_sign_all(ctx, ao[1], privs, msg, mroot, nonces)
                    case = {"op": "tree", "tree": spec, "leaf": "keypath"}
                    ctx.monitor("verify_input:musig-keypath")
                    ctx.case(case)
                    if sig is None:
                        ctx.violation("keypath-spend-fails:musig", "no aggregate signature for the tweaked n-of-n key", case)
                    else:
                        tx.tx_ins[0].finalize_p2tr_keypath(sig.serialize())
                        vo = outcome(tx.verify_input, 0)
                        if vo != ("ok", True):
                            ctx.violation("keypath-spend-fails:musig", f"verify_input -> {vo}", case)
    if spec.get("everything") and k >= 2:
        outcome(trm.everything_tree)


def gen_tree(rng, k, n, tier, serial):
    secrets = []
    while len(secrets) < n:
        d = rng.randrange(1, ec.N)
        if d not in secrets and (ec.N - d) not in secrets:
            secrets.append(d)
    allsubs = list(itertools.combinations(range(n), k))
    rng.shuffle(allsubs)
    nsp = 1 if tier == "quick" else 3
    return {
        "secrets": secrets, "k": k, "subsets": [list(s) for s in allsubs[:nsp]], "nonces": [rng.randrange(1, ec.N) for _ in range(4 * n + 4)],
        "musig": True, "keypath": serial % 2 == 0 or tier == "thorough", "everything": n <= 3,
        "hash_type": (serial // 2) % 2, "empty_sig": serial % 3 == 1, "mixed_flags": serial % 2 == 1 and k >= 2, "flag_offset": serial,
    }


# ---- shards ---------------------------------------------------------------------------------------------
def shards(tier, seed):
    # 16 processes in both tiers: thorough = the repository's test module under the contracts + 15 workload shards
    n = 16 if tier == "quick" else 15
    per = {"quick": 12, "thorough": 250}[tier]
    out = [{"name": "musig", "idx": i, "n": n, "per": per, "budget_s": 900 if tier == "quick" else 10800, "hard_timeout_s": 1500 if tier == "quick" else 14000} for i in range(n)]
    if tier == "thorough":
        out.insert(0, {"name": "repotests", "idx": 0, "n": 1, "budget_s": 10800, "hard_timeout_s": 14000, "modules": ["buidl.test.test_musig"]})
    return out


def _run_repo_tests(ctx, names):
    """Thorough tier only: the repository's own test modules executed under the installed contracts
    (an additional workload; a failing test is noted, never a verdict by itself)."""
    import io
    import unittest

    from vmon.core import Quiet

    suite = unittest.defaultTestLoader.loadTestsFromNames(names)
    with Quiet():
        res = unittest.TextTestRunner(stream=io.StringIO(), verbosity=0).run(suite)
    ctx.note("repotests", {"modules": names, "run": res.testsRun, "failures": len(res.failures), "errors": len(res.errors), "skipped": len(res.skipped),
                           "not-passing": [str(t[0]) for t in (res.failures + res.errors)][:12]})
    ctx.count("repotests:run", res.testsRun)


def musig_object_reuse(ctx, rng, serial):
    """ONE MuSigTapScript object used for sessions under different merkle roots (root A, root B, untweaked, root A
    again).  Each session has to end in a valid BIP340 signature for *its* tweak: nothing computed for an earlier
    root may be reused (the get_signature contract judges every signature with the reference verifier)."""
    from buidl.pecc import PrivateKey
    from buidl.taproot import MuSigTapScript

    n = 2 + serial % 3
    secrets = []
    while len(secrets) < n:
        d = rng.randrange(1, ec.N)
        if d not in secrets and (ec.N - d) not in secrets:
            secrets.append(d)
    privs = [PrivateKey(d) for d in secrets]
    mo = outcome(MuSigTapScript, [p.point for p in privs])
    if mo[0] != "ok":
        return
    musig = mo[1]
    # sign() expects the keys in the object's own (sorted) order
    by_x = {p.point.xonly(): p for p in privs}
    ordered = [by_x[pt.xonly()] if pt.xonly() in by_x else None for pt in musig.points]
    if any(o is None for o in ordered):
        return
    root_a, root_b = rng.randbytes(32), rng.randbytes(32)
    for step, root in enumerate((root_a, root_b, b"", root_a)):
        msg = rng.randbytes(32)
        nonces = [[rng.randrange(1, ec.N), rng.randrange(1, ec.N)] for _ in ordered]
        sig = _musig_sign_all(ctx, musig, ordered, msg, root, nonces)
        ctx.monitor("musig-object-reuse")
        if sig is None:
            ctx.violation("honest-session-fails:same-object-other-merkle-root", f"step {step} (root {'none' if not root else root.hex()[:16]}) on a reused MuSigTapScript object produced no valid signature",
                          {"op": "reuse", "secrets": secrets, "step": step})
    ctx.count("reuse:musig-object-across-merkle-roots")
    ctx.case(("musig-reuse", secrets))


def multi_input_leaf_spends(ctx, rng, serial):
    """A transaction with several inputs, each spending a DIFFERENT k-subset leaf of the same tree: all inputs are
    initialised first, then all are signed, then all are finalised.  Every input must verify."""
    from buidl.pecc import PrivateKey
    from buidl.taproot import TapRootMultiSig
    from buidl.tx import Tx, TxIn, TxOut

    n, k = (3, 2) if serial % 2 else (4, 2)
    privs = [PrivateKey(rng.randrange(1, ec.N)) for _ in range(n)]
    points = [p.point for p in privs]
    to = outcome(TapRootMultiSig, points, k)
    if to[0] != "ok":
        return
    trm = to[1]
    tree = trm.multi_leaf_tree()
    internal = trm.default_internal_pubkey
    spk = internal.p2tr_script(tree.hash())
    leaves = _fresh_leaves(tree)
    subsets = list(itertools.combinations(range(n), k))
    rng.shuffle(subsets)
    subsets = subsets[: 2 + serial % 2]
    tx_ins = []
    for j in range(len(subsets)):
        ti = TxIn(rng.randbytes(32), j)
        ti._value = 1_000_000 + j
        ti._script_pubkey = spk
        tx_ins.append(ti)
    tx = Tx(2, tx_ins, [TxOut(900_000, spk)], 0, network="signet", segwit=True)
    chosen = []
    for j, subset in enumerate(subsets):
        want = frozenset(points[i].xonly() for i in subset)
        leaf = [lf for lf in leaves if _key_set(lf.tap_script) == want][0]
        chosen.append(leaf)
        outcome(tx.initialize_p2tr_multisig, j, tree.control_block(internal, leaf), leaf.tap_script)
    sigs = []
    for j, subset in enumerate(subsets):
        sigs.append([outcome(tx.get_sig_taproot, j, privs[i], 1)[1] for i in subset])
    case = {"op": "multi-input", "n": n, "k": k, "subsets": [list(s) for s in subsets]}
    for j in range(len(subsets)):
        fo = outcome(tx.finalize_p2tr_multisig, j, sigs[j])
        vo = outcome(tx.verify_input, j)
        ctx.monitor("verify_input:multi-input-leaf")
        if fo != ("ok", True) or vo != ("ok", True):
            ctx.violation("leaf-spend-fails:multi-input-init-all-then-finalize-all", f"input {j}: finalize -> {fo}, verify_input -> {vo}", case)
    ctx.count("leaf-spend:multi-input-init-all-then-finalize-all")
    ctx.case(("multi-input", [tuple(s) for s in subsets], n, k, serial))


def run_shard(desc, ctx):
    ec.selfcheck()
    rt.selfcheck()
    _state["rng"] = ctx.rng("entropy")
    install()
    if desc["name"] == "repotests":
        _run_repo_tests(ctx, desc["modules"])
        return
    idx, per = desc["idx"], desc["per"]
    rng = ctx.rng()
    # k-of-n trees: every (k, n) pair is somebody's job; the two spare shards repeat the largest ones
    jobs = KN + [(3, 5), (2, 4)]
    reps = 1 if ctx.tier == "quick" else 4
    for rep in range(reps):
        k, n = jobs[(idx + rep * 5) % len(jobs)] if rep else jobs[idx % len(jobs)]
        if ctx.out_of_time():
            return
        spec = gen_tree(ctx.rng("tree", rep), k, n, ctx.tier, idx + rep)
        ctx.sample({"tree": {"k": k, "n": n, "subsets": spec["subsets"]}})
        run_tree(ctx, spec)
    if idx == 0:
        # n = 1: refused by the constructor (recorded, vacuous)
        from buidl.pecc import PrivateKey
        from buidl.taproot import TapRootMultiSig

        o = outcome(TapRootMultiSig, [PrivateKey(rng.randrange(1, ec.N)).point], 1)
        ctx.count("observed:TapRootMultiSig-n=1:" + ("accepted" if o[0] == "ok" else "refused"))
    for j in range(per):
        if ctx.out_of_time():
            return
        n = 2 + (j + idx) % 4
        spec = gen_session(rng, n, j + idx)
        if j < 2:
            ctx.sample({"session": {"n": n, "root": spec["root"], "msg": spec["msg"], "use_generate": spec["use_generate"]}})
        run_session(ctx, spec)
    for j in range(1 if ctx.tier == "quick" else 6):
        musig_object_reuse(ctx, ctx.rng("musig-reuse", j), idx + j)
        multi_input_leaf_spends(ctx, ctx.rng("multi-input", j), idx + j)
    if not ctx.timed_out:
        ctx.exhaustive.append("(k, n) pairs with 1 <= k <= n, 2 <= n <= 5: every k-subset checked against the generated trees")


def replay(case, ctx):
    ec.selfcheck()
    rt.selfcheck()
    _state["rng"] = ctx.rng("entropy")
    install()
    op = case.get("op")
    if op in ("session", "get-signature", "order") and case.get("session"):
        s = case["session"]
        s["negatives"] = [tuple(x) for x in s.get("negatives", [])]
        run_session(ctx, s)
    elif op == "order":
        run_session(ctx, {"secrets": case["secrets"], "signer_order": list(range(len(case["secrets"]))), "nonces": [[3, 5]] * len(case["secrets"]),
                          "msg": b"\x00" * 32, "root": b"", "perms": [case["perm"]], "negatives": []})
    elif op == "keyagg":
        from buidl.pecc import S256Point
        from buidl.taproot import MuSigTapScript

        outcome(MuSigTapScript, [S256Point.parse_xonly(x) for x in case["xonlys"]])
    elif op == "tree" and case.get("tree"):
        run_tree(ctx, case["tree"])
    elif op == "tree":
        from buidl.pecc import S256Point
        from buidl.taproot import TapRootMultiSig

        o = outcome(TapRootMultiSig, [S256Point.parse_xonly(x) for x in case["xonlys"]], case["k"])
        if o[0] == "ok":
            outcome({"multi": o[1].multi_leaf_tree, "musig": o[1].musig_tree, "single": o[1].single_leaf}[case["kind"]])
    elif op == "get-signature":
        from buidl.pecc import S256Point
        from buidl.taproot import MuSigTapScript

        m = MuSigTapScript.__new__(MuSigTapScript)
        m.point = S256Point.parse(case["agg"])
        _state["expect"], _state["neg"] = case.get("expect"), case.get("neg")
        outcome(m.get_signature, case["s_sum"], S256Point.parse(case["r"]), case["msg"], case["root"])
        _state["expect"] = None
