"""setup_cmd: validate every reference model against its published vectors and make sure no
reference module imports the library under test."""
import importlib
import os
import re
import sys

ROOT = os.path.dirname(os.path.dirname(os.path.abspath(__file__)))


def main():
    sys.path.insert(0, ROOT)
    bad = 0
    for fn in sorted(os.listdir(os.path.join(ROOT, "ref"))):
        if not fn.endswith(".py") or fn == "__init__.py":
            continue
        src = open(os.path.join(ROOT, "ref", fn)).read()
        if re.search(r"^\s*(from|import)\s+buidl\b", src, re.M):
            print("ref/%s imports buidl: not independent" % fn)
            bad += 1
            continue
        mod = importlib.import_module("ref." + fn[:-3])
        sc = getattr(mod, "selfcheck", None)
        if sc is None:
            print("ref/%s: no selfcheck" % fn)
            continue
        try:
            sc()
            print("ref/%s: selfcheck ok" % fn)
        except Exception as e:  # noqa: BLE001
            print("ref/%s: selfcheck FAILED %r" % (fn, e))
            bad += 1
    return 1 if bad else 0


if __name__ == "__main__":
    sys.exit(main())
