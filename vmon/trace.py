"""Observation evidence: which lines of the anchored functions a shard actually executed.

Uses sys.monitoring (3.12) LINE events restricted to the anchored code objects; the callback
returns DISABLE after the first hit of a line, so the cost is one callback per line per
process.  Supplementary evidence only - gating uses the reference-derived class counters.
"""
import dis
import sys


def _code_of(f):
    f = getattr(f, "__wrapped_original__", f)
    f = getattr(f, "__func__", f)
    return getattr(f, "__code__", None)


class Anchors:
    TOOL = 3

    def __init__(self, funcs):
        self.codes = {}
        for f in funcs:
            c = _code_of(f)
            if c is not None:
                self.codes[c] = getattr(f, "__qualname__", c.co_name)
        self.hit = {c: set() for c in self.codes}
        self.on = False

    def start(self):
        mon = getattr(sys, "monitoring", None)
        if mon is None or not self.codes:
            return
        try:
            mon.use_tool_id(self.TOOL, "vmon-anchors")
        except ValueError:
            return
        self.on = True

        def line(code, lineno):
            s = self.hit.get(code)
            if s is not None:
                s.add(lineno)
            return mon.DISABLE

        mon.register_callback(self.TOOL, mon.events.LINE, line)
        for c in self.codes:
            mon.set_local_events(self.TOOL, c, mon.events.LINE)

    def stop(self):
        if not self.on:
            return
        mon = sys.monitoring
        for c in self.codes:
            mon.set_local_events(self.TOOL, c, 0)
        mon.register_callback(self.TOOL, mon.events.LINE, None)
        mon.free_tool_id(self.TOOL)
        self.on = False

    def report(self):
        out = {}
        for c, name in self.codes.items():
            lines = {ln for _, ln in dis.findlinestarts(c) if ln is not None and ln != c.co_firstlineno}
            out[name] = {"hit": sorted(self.hit[c] & lines | (self.hit[c] - {c.co_firstlineno})), "seen": len(lines)}
        return out
