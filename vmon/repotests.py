"""Run the repository's own test modules in-process as an additional *workload* under the installed
contracts (thorough tier).  Test failures are not verdicts - only what the contracts observe counts.
Install the contracts BEFORE calling run(): test modules bind `from buidl.x import f` at import time.
"""
import importlib
import io
import os
import sys
import unittest

from vmon.core import Quiet


def run(ctx, module_names):
    ran = failed = 0
    names = []
    # the tests read fixture files (tx.cache, ...) relative to the repository
    here = os.getcwd()
    import buidl

    root = os.path.dirname(os.path.dirname(buidl.__file__))
    os.chdir(root)
    try:
        for m in module_names:
            full = m if "." in m else "buidl.test." + m
            try:
                mod = importlib.import_module(full)
            except Exception as e:  # noqa: BLE001
                ctx.note("repotests-import-failed:" + m, repr(e))
                continue
            suite = unittest.defaultTestLoader.loadTestsFromModule(mod)
            with Quiet():
                old_err = sys.stderr
                sys.stderr = io.StringIO()
                try:
                    res = unittest.TextTestRunner(stream=io.StringIO(), verbosity=0).run(suite)
                finally:
                    sys.stderr = old_err
            ran += res.testsRun
            failed += len(res.failures) + len(res.errors)
            names.append(m)
    finally:
        os.chdir(here)
    ctx.count("repotests:ran", ran)
    ctx.note("repotests", {"modules": names, "ran": ran, "failed-or-error(not a verdict; network tests fail offline)": failed})
    return ran
