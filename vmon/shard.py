"""Subprocess entry point: run one shard of one property and write its result as JSON."""
import faulthandler
import importlib
import json
import os
import sys
import traceback


def main():
    prop, desc_path, out_path = sys.argv[1], sys.argv[2], sys.argv[3]
    sys.setrecursionlimit(20000)
    faulthandler.enable()
    with open(desc_path) as f:
        job = json.load(f)
    desc, seed, tier = job["desc"], job["seed"], job["tier"]
    from vmon import contracts, core, trace

    res = {"desc": desc, "harness_error": None}
    try:
        core.assert_repo_binding()
        mod = importlib.import_module("props." + prop.lower())
        ctx = core.Ctx(prop, desc, seed, tier)
        contracts.bind(ctx)
        anchors = getattr(mod, "anchors", None)
        tr = trace.Anchors(anchors() if anchors else [])
        import buidl  # noqa: F401  (everything is loaded before the state observer looks)
        from vmon import leaks

        state = leaks.snapshot()
        tr.start()
        try:
            if job.get("replay") is not None:
                mod.replay(core.uncanon(job["replay"]), ctx)
            elif desc.get("name") == "__repotests__":
                # the repository's own tests as an extra workload under this property's contracts
                from vmon import repotests

                mod.install()
                repotests.run(ctx, mod.REPO_TEST_MODULES)
            else:
                mod.run_shard(desc, ctx)
        finally:
            tr.stop()
        res.update(ctx.result())
        res["anchors"] = tr.report()
        res["leaks"] = leaks.changed(state)
    except BaseException as e:  # noqa: BLE001
        res["harness_error"] = "".join(traceback.format_exception(type(e), e, e.__traceback__))[-4000:]
    tmp = out_path + ".tmp"
    with open(tmp, "w") as f:
        json.dump(res, f)
    os.replace(tmp, out_path)


if __name__ == "__main__":
    main()
