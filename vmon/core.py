"""Core of the runtime-monitoring harness: shard context, verdicts, evidence.

A *check* (props/cNN.py) exposes

    PROPERTY_ID, RULE, ASSUMPTIONS
    shards(tier, seed)        -> list of JSON-able shard descriptors (dicts with a "name")
    run_shard(desc, ctx)      -> drives the real library, feeding observations into ctx
    GATES                     -> {gate name: [class counters that must ALL be > 0]}
    replay(case, ctx)         -> (optional) re-run one recorded case

Every shard runs in its own subprocess (vmon.shard); the parent (vmon.run) merges the
shard results, classifies violations against known_findings.json, writes the evidence file
and prints the three-valued verdict:

    exit 0  held on what was observed (possibly with KNOWN-FINDING lines)
    exit 1  VIOLATION property=<id> replay=<path>
    exit 2  INCONCLUSIVE property=<id> reason=...   (never a VIOLATION line)
"""
import hashlib
import json
import os
import random
import sys
import time

VERIF_ROOT = os.path.dirname(os.path.dirname(os.path.abspath(__file__)))
REPO_ROOT = os.environ.get("VERIF_REPO_ROOT", "/repo")
GUARD_ENV = "BUIDL_VERIF"

MAX_VIOLATIONS_KEPT = 200
MAX_SAMPLES = 6


def canon(obj):
    """Canonical JSON-able form: bytes -> hex, tuples -> lists, big ints -> str."""
    if isinstance(obj, (bytes, bytearray)):
        return "hex:" + bytes(obj).hex()
    if isinstance(obj, dict):
        return {str(k): canon(v) for k, v in obj.items()}
    if isinstance(obj, (list, tuple)):
        return [canon(v) for v in obj]
    if isinstance(obj, (set, frozenset)):
        return sorted(canon(v) for v in obj)
    if isinstance(obj, bool) or obj is None:
        return obj
    if isinstance(obj, int):
        return obj if -(2**53) < obj < 2**53 else "int:" + str(obj)
    if isinstance(obj, float):
        return obj
    if isinstance(obj, str):
        return obj
    return "repr:" + repr(obj)


def uncanon(obj):
    if isinstance(obj, str):
        if obj.startswith("hex:"):
            return bytes.fromhex(obj[4:])
        if obj.startswith("int:"):
            return int(obj[4:])
        return obj
    if isinstance(obj, dict):
        return {k: uncanon(v) for k, v in obj.items()}
    if isinstance(obj, list):
        return [uncanon(v) for v in obj]
    return obj


def digest8(obj):
    data = json.dumps(canon(obj), sort_keys=True, separators=(",", ":")).encode()
    return hashlib.sha256(data).digest()[:8]


def rng_for(seed, *parts):
    h = hashlib.sha256(repr((seed,) + parts).encode()).digest()
    return random.Random(int.from_bytes(h, "big"))


class Ctx:
    """Per-shard observation sink.  All counts are measured here, nothing is constant."""

    def __init__(self, prop, desc, seed, tier):
        self.prop = prop
        self.desc = desc
        self.seed = seed
        self.tier = tier
        self.t0 = time.monotonic()
        self.budget_s = float(desc.get("budget_s", 600))
        self.evaluations = 0
        self.distinct = set()
        self.classes = {}
        self.monitors = {}
        self.violations = []
        self.violation_count = 0
        self.samples = []
        self.rejected_by_exception = 0
        self.notes = {}
        self.exhaustive = []
        self.timed_out = False

    # ---- time -----------------------------------------------------------------
    def elapsed(self):
        return time.monotonic() - self.t0

    def time_left(self):
        return self.budget_s - self.elapsed()

    def out_of_time(self):
        """True when the soft budget is spent.  A shard that stops for this reason before
        finishing its counted workload marks itself timed out (=> inconclusive)."""
        if self.time_left() <= 0:
            self.timed_out = True
            return True
        return False

    def rng(self, *parts):
        return rng_for(self.seed, self.prop, self.desc.get("name"), self.desc.get("idx", 0), *parts)

    # ---- observations ---------------------------------------------------------
    def count(self, cls, n=1):
        self.classes[cls] = self.classes.get(cls, 0) + n

    def monitor(self, name, n=1):
        """One oracle comparison actually performed by monitor `name`."""
        self.monitors[name] = self.monitors.get(name, 0) + n
        self.evaluations += n

    def case(self, key, nontrivial=True, cls=None):
        """Register one explored case by its concrete input.  Only non-trivial cases enter
        the distinct set."""
        if cls:
            self.count(cls)
        if nontrivial:
            self.distinct.add(digest8(key))

    def sample(self, obj, force=False):
        if force or len(self.samples) < MAX_SAMPLES:
            self.samples.append(canon(obj))

    def note(self, key, value):
        self.notes[key] = canon(value)

    def violation(self, mechanism, what, case):
        """Record a refuting observation.  `mechanism` is a stable classifier key (kind of
        failing input, never random values); `case` is the concrete re-executable input."""
        self.violation_count += 1
        if len(self.violations) < MAX_VIOLATIONS_KEPT:
            self.violations.append(
                {"mechanism": mechanism, "what": what, "case": canon(case)}
            )

    def result(self):
        return {
            "desc": self.desc,
            "evaluations": self.evaluations,
            "distinct_hex": b"".join(sorted(self.distinct)).hex(),
            "classes": self.classes,
            "monitors": self.monitors,
            "violations": self.violations,
            "violation_count": self.violation_count,
            "samples": self.samples,
            "rejected_by_exception": self.rejected_by_exception,
            "notes": self.notes,
            "exhaustive": self.exhaustive,
            "timed_out": self.timed_out,
            "wall_s": round(self.elapsed(), 3),
        }


class Quiet:
    """Capture the library's print() noise ('bad op', ...) for the duration of a case."""

    def __enter__(self):
        self._old = sys.stdout
        sys.stdout = open(os.devnull, "w")
        return self

    def __exit__(self, *a):
        sys.stdout.close()
        sys.stdout = self._old
        return False


def outcome(fn, *a, **kw):
    """Run fn and return ('ok', value) or ('exc', 'TypeName: msg').  Library noise muted."""
    with Quiet():
        try:
            return ("ok", fn(*a, **kw))
        except RecursionError as e:  # still an exception outcome
            return ("exc", "RecursionError: " + str(e)[:80])
        except Exception as e:  # noqa: BLE001 - the monitor observes every outcome
            return ("exc", type(e).__name__ + ": " + str(e)[:120])


def assert_repo_binding():
    """The checks must observe /repo's current working tree (or the self-test's scratch
    copy named by VERIF_REPO_ROOT); anything else makes the run inconclusive."""
    import buidl

    root = os.path.realpath(REPO_ROOT)
    got = os.path.realpath(os.path.dirname(os.path.dirname(buidl.__file__)))
    if got != root:
        raise RuntimeError(f"buidl imported from {got}, expected {root}")
    return got
