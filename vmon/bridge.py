"""Bridges between library objects and the reference dict models (ref.txcodec).

Reading a library object's *public fields* into a model is how the contracts snapshot "the
transaction as it is at call time"; building library objects from a model goes through the
public constructors only.
"""
from ref import txcodec as tc


def script_raw_from_fields(script):
    """Reference encoding of a library Script's fields (commands, or the preserved raw bytes)."""
    raw = getattr(script, "raw", None)
    if raw:
        return bytes(raw)
    return tc.script_bytes(script.commands)


def model_of_tx(tx):
    ins = []
    for i in tx.tx_ins:
        ins.append(
            {
                "txid": bytes(i.prev_tx),
                "vout": int(i.prev_index),
                "script": script_raw_from_fields(i.script_sig),
                "sequence": int(i.sequence),
                "witness": [bytes(x) for x in (i.witness.items if i.witness is not None else [])],
            }
        )
    outs = [{"amount": int(o.amount), "script": script_raw_from_fields(o.script_pubkey)} for o in tx.tx_outs]
    return {"version": int(tx.version), "ins": ins, "outs": outs, "locktime": int(tx.locktime), "segwit": bool(tx.segwit)}


def build_tx(model, network="mainnet", cmds_of=None):
    """Build a library Tx from a model through the public API.  Scripts are given to the library
    as command lists (parsed by the reference parser), never as raw bytes."""
    from buidl.script import Script
    from buidl.tx import Tx, TxIn, TxOut
    from buidl.witness import Witness

    def mk_script(raw):
        cmds, clean = tc.script_parse(raw)
        if not clean:
            raise ValueError("model script is not cleanly parseable")
        return Script(list(cmds))

    tx_ins = []
    for i in model["ins"]:
        ti = TxIn(i["txid"], i["vout"], mk_script(i["script"]), i["sequence"])
        if i.get("witness"):
            ti.witness = Witness(list(i["witness"]))
        tx_ins.append(ti)
    tx_outs = [TxOut(o["amount"], mk_script(o["script"])) for o in model["outs"]]
    return Tx(model["version"], tx_ins, tx_outs, model["locktime"], network=network, segwit=model["segwit"])


def model_diff(a, b):
    """First differing field between two tx models (None when equal)."""
    for k in ("version", "locktime", "segwit"):
        if a[k] != b[k]:
            return k
    if len(a["ins"]) != len(b["ins"]):
        return "input-count"
    if len(a["outs"]) != len(b["outs"]):
        return "output-count"
    for n, (x, y) in enumerate(zip(a["ins"], b["ins"])):
        for k in ("txid", "vout", "script", "sequence"):
            if x[k] != y[k]:
                return f"in[{n}].{k}"
        if a["segwit"] and list(x.get("witness", [])) != list(y.get("witness", [])):
            return f"in[{n}].witness"
    for n, (x, y) in enumerate(zip(a["outs"], b["outs"])):
        for k in ("amount", "script"):
            if x[k] != y[k]:
                return f"out[{n}].{k}"
    return None
