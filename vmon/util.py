"""Small helpers shared by the property modules."""
from ref import ec

N = ec.N
P = ec.P


def boundary_secrets():
    out = [1, 2, 3, N - 1, N - 2, N // 2, N // 2 + 1, 2**128 - 1, 2**128, 2**128 + 1, 2**255 - 1, 2**255, 2**255 + 1]
    out += [2**k for k in (8, 31, 32, 63, 64, 127, 200, 254)]
    return [s for s in out if 1 <= s < N]


def boundary_digests():
    return [0, 1, 2, N - 1, N, N + 1, 2**255, 2**255 - 1, 2**256 - 1, 2**256 - 2, 2**128, N // 2, N // 2 + 1]


def rand_secret(rng):
    return rng.randrange(1, N)


def rand_digest(rng):
    return rng.getrandbits(256)


def spread(items, idx, nshards):
    """The slice of a deterministic catalogue that shard idx is responsible for."""
    return [x for i, x in enumerate(items) if i % nshards == idx]


def hexs(b):
    return b.hex() if isinstance(b, (bytes, bytearray)) else b
