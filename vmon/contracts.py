"""In-situ contract monitors attached to the real functions from outside the repository.

`install(owner, name, post, snap=None)` replaces `owner.name` (class attribute, module
function or dict entry) by a thin wrapper that

  * takes an optional pre-state snapshot  `pre = snap(*args, **kwargs)`,
  * calls the original,
  * hands `(args, kwargs, pre, outcome)` to the postcondition `post`, where outcome is
    ('ok', result) or ('exc', exception),
  * returns / re-raises exactly what the original did: a monitor *records* (through the
    bound Ctx) and never changes the behaviour it observes.

Every alias of the original function object found in loaded `buidl.*` modules and in dict
dispatch tables is rebound to the same wrapper, and every wrapper counts its evaluations in
`ctx.monitors[<label>]`; a check gates on those counters, so a monitor that was bypassed
(zero evaluations) makes the run inconclusive instead of silently "held".

(The design named icontract for this layer.  The same discipline - named conditions,
snapshots, explicit error sink, evaluation counters - is implemented here directly because
conditions must record-and-continue rather than raise, must be re-entrancy safe (a condition
that calls the library must not trigger nested conditions) and cost < 1 us on opcode
handlers; icontract gives none of the three.  See DESIGN.md 0.1.)
"""
import functools
import sys
import traceback

_CTX = None
_DEPTH = 0
_INSTALLED = []


def bind(ctx):
    global _CTX
    _CTX = ctx


def ctx():
    return _CTX


class suspended:
    """Run library code from inside a harness without triggering monitors."""

    def __enter__(self):
        global _DEPTH
        _DEPTH += 1

    def __exit__(self, *a):
        global _DEPTH
        _DEPTH -= 1
        return False


def _make_wrapper(orig, label, post, snap):
    @functools.wraps(orig)
    def wrapper(*args, **kwargs):
        global _DEPTH
        if _DEPTH or _CTX is None:
            return orig(*args, **kwargs)
        pre = None
        if snap is not None:
            _DEPTH += 1
            try:
                pre = snap(*args, **kwargs)
            except Exception:  # noqa: BLE001
                _CTX.count("monitor-crash:" + label)
                _CTX.note("monitor-crash:" + label, traceback.format_exc()[-1500:])
                pre = _SnapFailed
            finally:
                _DEPTH -= 1
        try:
            result = orig(*args, **kwargs)
        except Exception as e:  # noqa: BLE001
            if pre is not _SnapFailed:
                _run_post(label, post, args, kwargs, pre, ("exc", e))
            raise
        if pre is not _SnapFailed:
            _run_post(label, post, args, kwargs, pre, ("ok", result))
        return result

    wrapper.__wrapped_original__ = orig
    wrapper.__vmon_label__ = label
    return wrapper


class _SnapFailed:
    pass


def _run_post(label, post, args, kwargs, pre, outcome):
    global _DEPTH
    _DEPTH += 1
    try:
        verdict = post(args, kwargs, pre, outcome)
        if verdict is not NotImplemented:
            _CTX.monitor(label)
    except Exception:  # noqa: BLE001 - a crashing monitor is a harness problem, not a violation
        _CTX.count("monitor-crash:" + label)
        _CTX.note("monitor-crash:" + label, traceback.format_exc()[-1500:])
    finally:
        _DEPTH -= 1


def _rebind_aliases(orig, wrapper):
    n = 0
    for modname, mod in list(sys.modules.items()):
        if mod is None or not (modname == "buidl" or modname.startswith("buidl.")):
            continue
        d = getattr(mod, "__dict__", None)
        if not d:
            continue
        for k, v in list(d.items()):
            if v is orig:
                d[k] = wrapper
                _INSTALLED.append((d, k, orig, "dict"))
                n += 1
            elif isinstance(v, dict) and k.isupper():
                for kk, vv in list(v.items()):
                    if vv is orig:
                        v[kk] = wrapper
                        _INSTALLED.append((v, kk, orig, "dict"))
                        n += 1
    return n


def install(owner, name, post, snap=None, label=None):
    """Attach a monitor to owner.name.  owner: class, module or dict."""
    if isinstance(owner, dict):
        orig = owner[name]
        label = label or getattr(orig, "__name__", str(name))
        w = _make_wrapper(orig, label, post, snap)
        owner[name] = w
        _INSTALLED.append((owner, name, orig, "dict"))
        return w
    raw = owner.__dict__[name] if isinstance(owner, type) else getattr(owner, name)
    oname = getattr(owner, "__name__", str(owner)).split(".")[-1]
    label = label or (f"{oname}.{name}" if isinstance(owner, type) else name)
    if isinstance(raw, classmethod):
        w = _make_wrapper(raw.__func__, label, post, snap)
        setattr(owner, name, classmethod(w))
        _INSTALLED.append((owner, name, raw, "attr"))
        return w
    if isinstance(raw, staticmethod):
        w = _make_wrapper(raw.__func__, label, post, snap)
        setattr(owner, name, staticmethod(w))
        _INSTALLED.append((owner, name, raw, "attr"))
        return w
    w = _make_wrapper(raw, label, post, snap)
    setattr(owner, name, w)
    _INSTALLED.append((owner, name, raw, "attr"))
    if not isinstance(owner, type):
        _rebind_aliases(raw, w)
    return w


def uninstall_all():
    while _INSTALLED:
        owner, name, orig, kind = _INSTALLED.pop()
        if kind == "dict":
            owner[name] = orig
        else:
            setattr(owner, name, orig)


def crashed(ctx_):
    """Names of monitors whose condition crashed (=> run is inconclusive)."""
    return [k for k in ctx_.classes if k.startswith("monitor-crash:")]
