"""Parent driver:  python -m vmon.run <ID> [--tier quick|thorough] [--replay path] [--jobs N]"""
import argparse
import hashlib
import importlib
import json
import os
import shutil
import subprocess
import sys
import time

from vmon import core

LEVEL = "exploration"


def load_known():
    path = os.path.join(core.VERIF_ROOT, "known_findings.json")
    with open(path) as f:
        return json.load(f)


def run_jobs(prop, jobs, workdir, max_parallel, hard_timeout):
    """jobs: list of dict(desc, seed, tier[, replay]).  Returns list of result dicts."""
    env = dict(os.environ)
    env.update(
        {
            "PYTHONHASHSEED": "0",
            "PYTHONDONTWRITEBYTECODE": "1",
            core.GUARD_ENV: "1",
            "PYTHONPATH": core.VERIF_ROOT,
        }
    )
    if os.environ.get("VERIF_REPO_ROOT"):
        # self-test only: a scratch copy of the repository takes precedence over the
        # editable install of /repo
        env["PYTHONPATH"] = core.REPO_ROOT + os.pathsep + core.VERIF_ROOT
    pending = list(enumerate(jobs))
    running = {}
    results = [None] * len(jobs)
    while pending or running:
        while pending and len(running) < max_parallel:
            i, job = pending.pop(0)
            dpath = os.path.join(workdir, f"job{i}.json")
            opath = os.path.join(workdir, f"out{i}.json")
            with open(dpath, "w") as f:
                json.dump(job, f)
            log = open(os.path.join(workdir, f"log{i}.txt"), "w")
            p = subprocess.Popen(
                [sys.executable, "-m", "vmon.shard", prop, dpath, opath],
                cwd=core.VERIF_ROOT,
                env=env,
                stdout=log,
                stderr=subprocess.STDOUT,
            )
            running[i] = (p, time.monotonic(), opath, log, job)
        time.sleep(0.05)
        for i in list(running):
            p, t0, opath, log, job = running[i]
            rc = p.poll()
            limit = float(job["desc"].get("hard_timeout_s", hard_timeout))
            if rc is None and time.monotonic() - t0 > limit:
                p.kill()
                p.wait()
                rc = "timeout"
            if rc is None:
                continue
            log.close()
            del running[i]
            if rc == "timeout":
                results[i] = {"desc": job["desc"], "harness_error": None, "killed_timeout": True}
            elif os.path.exists(opath):
                with open(opath) as f:
                    results[i] = json.load(f)
            else:
                with open(os.path.join(workdir, f"log{i}.txt")) as f:
                    tail = f.read()[-3000:]
                results[i] = {"desc": job["desc"], "harness_error": f"shard died rc={rc}\n{tail}"}
    return results


def merge(results):
    m = {
        "evaluations": 0,
        "distinct": set(),
        "classes": {},
        "monitors": {},
        "violations": [],
        "violation_count": 0,
        "samples": [],
        "rejected_by_exception": 0,
        "notes": {},
        "exhaustive": [],
        "timeouts": [],
        "harness_errors": [],
        "anchors": {},
        "shard_walls": {},
    }
    for r in results:
        name = "%s#%s" % (r["desc"].get("name"), r["desc"].get("idx", 0))
        if r.get("killed_timeout"):
            m["timeouts"].append(name)
            continue
        if r.get("harness_error"):
            m["harness_errors"].append((name, r["harness_error"]))
            continue
        if r.get("timed_out"):
            m["timeouts"].append(name)
        m["evaluations"] += r["evaluations"]
        raw = bytes.fromhex(r["distinct_hex"])
        for i in range(0, len(raw), 8):
            m["distinct"].add(raw[i : i + 8])
        for k, v in r["classes"].items():
            m["classes"][k] = m["classes"].get(k, 0) + v
        for k, v in r["monitors"].items():
            m["monitors"][k] = m["monitors"].get(k, 0) + v
        m["violations"].extend(r["violations"])
        m["violation_count"] += r["violation_count"]
        for s in r["samples"][:2]:
            if len(m["samples"]) < 12:
                m["samples"].append(s)
        m["rejected_by_exception"] += r["rejected_by_exception"]
        m["notes"].update(r["notes"])
        for lk in r.get("leaks") or []:
            m["notes"].setdefault("process-wide library state changed by the workload (observer vmon/leaks.py; a lead, not a verdict)", [])
            lst = m["notes"]["process-wide library state changed by the workload (observer vmon/leaks.py; a lead, not a verdict)"]
            key = lk.split(":", 2)[:2]
            if not any(x.split(":", 2)[:2] == key for x in lst):
                lst.append(lk)
        m["exhaustive"].extend(r["exhaustive"])
        m["shard_walls"][name] = r["wall_s"]
        for q, a in (r.get("anchors") or {}).items():
            cur = m["anchors"].setdefault(q, {"hit": set(), "seen": a["seen"]})
            cur["hit"].update(a["hit"])
    return m


def main(argv=None):
    ap = argparse.ArgumentParser()
    ap.add_argument("prop")
    ap.add_argument("--tier", default=os.environ.get("VERIF_TIER") or "quick")
    ap.add_argument("--replay")
    ap.add_argument("--jobs", type=int, default=int(os.environ.get("VERIF_JOBS", "16")))
    ap.add_argument("--only", help="run only shards whose name matches (debugging; verdict still printed)")
    args = ap.parse_args(argv)
    prop = args.prop.upper()
    tier = args.tier if args.tier in ("quick", "thorough") else "quick"
    try:
        seed = int(os.environ.get("VERIF_SEED", "0") or 0)
    except ValueError:
        seed = 0
    t0 = time.monotonic()
    sys.path.insert(0, core.VERIF_ROOT)
    mod = importlib.import_module("props." + prop.lower())

    workdir = os.path.join(core.VERIF_ROOT, ".work", f"{prop}-{os.getpid()}")
    os.makedirs(workdir, exist_ok=True)
    try:
        if args.replay:
            with open(args.replay) as f:
                rep = json.load(f)
            jobs = [{"desc": {"name": "replay", "budget_s": 600}, "seed": rep.get("seed", seed), "tier": tier, "replay": rep["case"]}]
        else:
            descs = mod.shards(tier, seed)
            if tier == "thorough" and getattr(mod, "REPO_TEST_MODULES", None) and hasattr(mod, "install"):
                descs = descs + [{"name": "__repotests__", "idx": 0, "n": 1, "budget_s": 5400}]
            if args.only:
                descs = [d for d in descs if args.only in d["name"]]
            jobs = [{"desc": d, "seed": seed, "tier": tier} for d in descs]
        hard = 1500 if tier == "quick" else 7200
        results = run_jobs(prop, jobs, workdir, args.jobs, hard)
    finally:
        shutil.rmtree(workdir, ignore_errors=True)
    m = merge(results)

    # ---- classify violations against the committed known-findings file ------------------
    known = {
        k["mechanism"]: k
        for k in load_known().get("findings", [])
        if k.get("property") == prop
    }
    known_seen = {}
    fresh = []
    for v in m["violations"]:
        if v["mechanism"] in known:
            known_seen[v["mechanism"]] = known_seen.get(v["mechanism"], 0) + 1
        else:
            fresh.append(v)
    overflow = m["violation_count"] - len(m["violations"])

    # ---- gates ---------------------------------------------------------------------------
    gates = {}
    for g, needed in getattr(mod, "GATES", {}).items():
        if isinstance(needed, dict):
            needed = needed.get(tier, needed.get("quick", []))
        gates[g] = all(m["classes"].get(c, 0) > 0 or m["monitors"].get(c, 0) > 0 for c in needed)
    reasons = []
    if not args.replay:
        if m["harness_errors"]:
            reasons.append("harness-error:" + m["harness_errors"][0][0])
        if m["timeouts"]:
            reasons.append("shard-timeout:" + ",".join(m["timeouts"][:4]))
        if not args.only:
            for g, ok in gates.items():
                if not ok:
                    reasons.append("gate-unmet:" + g)
        crashed = sorted(c for c in m["classes"] if c.startswith("monitor-crash:"))
        if crashed:
            reasons.append("monitor-crashed:" + ",".join(crashed[:3]))
            print("monitor crash:", m["notes"].get(crashed[0]), file=sys.stderr)
        if m["evaluations"] == 0:
            reasons.append("no-evaluations")
        if len(m["distinct"]) < 2 and not args.only:
            reasons.append("too-few-distinct-cases")

    # ---- evidence ------------------------------------------------------------------------
    wall = round(time.monotonic() - t0, 2)
    evidence = {
        "property_id": prop,
        "tier": tier,
        "seed": seed,
        "level": LEVEL,
        "wall_s": wall,
        "violations": len(fresh) + (overflow if fresh else 0),
        "assumptions": list(getattr(mod, "ASSUMPTIONS", []))
        + [
            "pure-Python back end only (buidl.pecc / buidl.phash); the cffi libsecp256k1 back end cannot be imported in this sandbox",
            "trusted: CPython, hashlib/hmac, the reference models under /verif/ref (self-checked against published vectors at start-up)",
            "held on the executions observed, not a proof",
        ],
        "coverage": {
            "evaluations": m["evaluations"],
            "distinct_nontrivial": len(m["distinct"]),
            "rule": getattr(mod, "RULE", ""),
            "samples": m["samples"],
            "monitors": m["monitors"],
            "classes": dict(sorted(m["classes"].items())),
            "gates": gates,
            "anchors": {q: "%d/%d" % (len(a["hit"]), a["seen"]) for q, a in sorted(m["anchors"].items())},
            "rejected_by_exception": m["rejected_by_exception"],
            "known_findings_seen": known_seen,
            "exhaustive_subspaces": sorted(set(m["exhaustive"])),
            "shards": len(results),
            "shard_wall_s": m["shard_walls"],
            "timeouts": m["timeouts"],
            "notes": m["notes"],
            "verdict": None,
        },
    }
    verdict = "violated" if fresh else ("inconclusive" if reasons else "held")
    evidence["coverage"]["verdict"] = verdict
    if reasons:
        evidence["coverage"]["inconclusive_reasons"] = reasons
    if fresh:
        evidence["coverage"]["violation_mechanisms"] = sorted({v["mechanism"] for v in fresh})
    if not args.replay and not args.only:
        # runs against a scratch copy (self-test) must not overwrite the evidence of the real tree
        # runs against a scratch copy, and runs of the self-test against a deliberately broken /repo, must not overwrite the
        # evidence of the unchanged tree
        scratch_run = os.environ.get("VERIF_REPO_ROOT") or os.environ.get("VERIF_SELFTEST")
        edir = os.path.join(core.VERIF_ROOT, ".work", "evidence-scratch") if scratch_run else os.path.join(core.VERIF_ROOT, "evidence")
        os.makedirs(edir, exist_ok=True)
        epath = os.path.join(edir, prop + ".json")
        with open(epath + ".tmp", "w") as f:
            json.dump(evidence, f, indent=1, sort_keys=False)
        os.replace(epath + ".tmp", epath)

    # ---- verdict -------------------------------------------------------------------------
    for mech, n in sorted(known_seen.items()):
        print(f"KNOWN-FINDING: property={prop} {mech}: {known[mech]['what']} (observed {n}x)")
    print(
        f"{prop} tier={tier} seed={seed} evaluations={m['evaluations']} distinct={len(m['distinct'])} "
        f"shards={len(results)} wall={wall}s verdict={verdict}"
    )
    if fresh:
        os.makedirs(os.path.join(core.VERIF_ROOT, "replays"), exist_ok=True)
        seen_mech = set()
        for v in fresh:
            if v["mechanism"] in seen_mech:
                continue
            seen_mech.add(v["mechanism"])
            body = {"property": prop, "seed": seed, "mechanism": v["mechanism"], "what": v["what"], "case": v["case"]}
            dig = hashlib.sha256(json.dumps(body, sort_keys=True).encode()).hexdigest()[:12]
            rpath = os.path.join(core.VERIF_ROOT, "replays", f"{prop}-{dig}.json")
            with open(rpath, "w") as f:
                json.dump(body, f, indent=1)
            print(f"  mechanism={v['mechanism']} what={v['what'][:300]}")
            print(f"VIOLATION property={prop} replay={rpath}")
        return 1
    if reasons:
        for name, err in m["harness_errors"][:3]:
            print(f"--- harness error in shard {name} ---\n{err}", file=sys.stderr)
        print(f"INCONCLUSIVE property={prop} reason={';'.join(reasons)}")
        return 2
    return 0


if __name__ == "__main__":
    sys.exit(main())
