"""Observer of process-wide state that a workload leaves behind in the library (diagnostic, not an oracle).

Recurring mechanism behind history-dependent answers: a mutable default argument object or a module-level
container that one call fills and a later, unrelated call reads.  This observer fingerprints, before and after a
shard's workload,
  * every mutable default argument (list / dict / set / bytearray / plain object) of every function and method
    defined in a loaded buidl.* module, and
  * every module-level list / dict / set of those modules, and the cache statistics of functools caches,
and reports what changed.  A change is a *lead* - the property checks decide whether behaviour depends on it - so
it is written to the shard result as `leaks` (shown under `notes` in the evidence file) and never raises an alarm.
"""
import inspect
import sys
import types


def _fp(x, depth=0):
    if depth > 3:
        return "..."
    if isinstance(x, (list, tuple)):
        return (type(x).__name__, len(x), tuple(_fp(e, depth + 1) for e in list(x)[:8]))
    if isinstance(x, dict):
        items = list(x.items())
        return ("dict", len(x), tuple((_fp(k, depth + 1), _fp(v, depth + 1)) for k, v in items[:8]))
    if isinstance(x, (set, frozenset)):
        return ("set", len(x))
    if isinstance(x, (bytes, bytearray, str, int, float, bool, type(None))):
        return repr(x)[:80]
    if hasattr(x, "__dict__") and not isinstance(x, (types.ModuleType, types.FunctionType, type)):
        return (type(x).__name__, tuple((k, _fp(v, depth + 1)) for k, v in sorted(vars(x).items())[:12]))
    return type(x).__name__


def _mutable(x):
    if isinstance(x, (list, dict, set, bytearray)):
        return True
    return hasattr(x, "__dict__") and not isinstance(x, (types.ModuleType, types.FunctionType, type, types.BuiltinFunctionType))


def _functions(mod):
    for name, obj in list(vars(mod).items()):
        if inspect.isfunction(obj) and obj.__module__ == mod.__name__:
            yield f"{mod.__name__}.{name}", obj
        elif inspect.isclass(obj) and obj.__module__ == mod.__name__:
            for an, a in list(vars(obj).items()):
                f = a.__func__ if isinstance(a, (classmethod, staticmethod)) else a
                f = getattr(f, "__wrapped__", f)
                if inspect.isfunction(f):
                    yield f"{mod.__name__}.{obj.__name__}.{an}", f


def snapshot():
    snap = {}
    for mn, mod in list(sys.modules.items()):
        if not (mn == "buidl" or mn.startswith("buidl.")) or mod is None or ".test" in mn:
            continue
        for qn, f in _functions(mod):
            try:
                sig_defaults = list(f.__defaults__ or ()) + list((f.__kwdefaults__ or {}).values())
            except AttributeError:
                continue
            for i, d in enumerate(sig_defaults):
                if _mutable(d):
                    snap[f"default:{qn}#{i}"] = (d, _fp(d))
        for name, obj in list(vars(mod).items()):
            if isinstance(obj, (list, dict, set)) and not name.startswith("__"):
                snap[f"global:{mn}.{name}"] = (obj, _gfp(name, obj))
            if inspect.isclass(obj) and obj.__module__ == mn:
                for an, a in list(vars(obj).items()):
                    if isinstance(a, (list, dict, set)) and not an.startswith("__"):
                        snap[f"global:{mn}.{name}.{an}"] = (a, _gfp(an, a))
            ci = getattr(obj, "cache_info", None)
            if callable(ci):
                try:
                    snap[f"cache:{mn}.{name}"] = (obj, ("cache", ci().currsize))
                except Exception:  # noqa: BLE001
                    pass
    return snap


def _gfp(name, obj):
    return _fp(obj) if not name.isupper() else ("table", len(obj))


def changed(snap):
    """Fingerprint the very objects recorded by snapshot() again and list those that differ now."""
    out = []
    for k, (obj, fp0) in snap.items():
        if k.startswith("cache:"):
            fp1 = ("cache", obj.cache_info().currsize)
        elif k.startswith("global:"):
            fp1 = _gfp(k.rsplit(".", 1)[1], obj)
        else:
            fp1 = _fp(obj)
        if fp1 != fp0:
            out.append(f"{k}: {str(fp0)[:70]} -> {str(fp1)[:70]}")
    return sorted(out)
